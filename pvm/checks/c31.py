"""C31 Geometric predicates and point orderings agree with exact oracles.

Reference-model monitor: every call of a predicate / sorting helper of
``geometry_property_checks``, ``point_in_polyhedron``, ``half_space`` and ``sort_points``
on generated integer-lattice input is decided by an exact (integer / rational) model:
crossing and winding numbers, ray casting on the closed triangulated surface (cross-checked
by construction for polycubes), sign of plane equations, orientation determinants, rank
tests; orderings are checked for *validity* (chain, monotone, cyclic angular order, no
directed edge twice), never for one particular order.
"""
from __future__ import annotations

import math
from fractions import Fraction as Fr

import numpy as np

from pvm.gen import c31_shapes as sh
from pvm.ref import c31_exact as ex

PROP = "C31"
N = {"quick": 1600, "thorough": 100000}
WORKERS = {"quick": 4, "thorough": 16}
TIMEOUT = {"quick": 600, "thorough": 3000}
CASE_TIMEOUT = 60.0
RULE = ("integer-lattice inputs: simple polygons (star-shaped, convex hulls, rectilinear L/U/T/"
        "comb shapes and their integer-affine images, both orientations), polyhedra given as "
        "conforming convex faces (boxes, connected polycubes incl. L/U/ring/stairs and affine "
        "images, octahedra with a dented apex, oblique prisms, tetrahedra), query points on "
        "the 1/4-lattice whose exact rational distance to every edge / face exceeds 0.1, plane "
        "sets, 3-6 distinct points for the rank predicates, shuffled and flipped chains "
        "(open / closed, with tag rows), points on lattice lines and planes, scrambled "
        "triangulations (planar Delaunay and closed surfaces); non-trivial = at least one "
        "decided predicate value of each sign or a chain of >= 3 elements; distinct = case hash")
REACH = [
    ("geometry/geometry_property_checks.py", "point_in_polygon"),
    ("geometry/geometry_property_checks.py", "point_in_cell"),
    ("geometry/geometry_property_checks.py", "point_in_polyhedron"),
    ("geometry/geometry_property_checks.py", "is_ccw_polygon"),
    ("geometry/geometry_property_checks.py", "is_ccw_polyline"),
    ("geometry/geometry_property_checks.py", "points_are_planar"),
    ("geometry/geometry_property_checks.py", "points_are_collinear"),
    ("geometry/point_in_polyhedron.py", "PointInPolyhedron.winding_number"),
    ("geometry/point_in_polyhedron.py", "PointInPolyhedron.solid_angle"),
    ("geometry/half_space.py", "point_inside_half_space_intersection"),
    ("geometry/half_space.py", "half_space_interior_point"),
    ("geometry/sort_points.py", "sort_point_pairs"),
    ("geometry/sort_points.py", "sort_multiple_point_pairs"),
    ("geometry/sort_points.py", "sort_point_plane"),
    ("geometry/sort_points.py", "sort_points_on_line"),
    ("geometry/sort_points.py", "sort_triangle_edges"),
]
REACH_LINES = [
    ("geometry/geometry_property_checks.py", "loc_tri = scipy.spatial.Delaunay(p_2d.T)"),
    ("geometry/geometry_property_checks.py", "simplices = np.array([0, 1, 2])"),
    ("geometry/sort_points.py", "sorted_lines[:2, i] = np.flip(sorted_lines[:2, i], 0)"),
]
REQUIRED = {
    "polygon_points_decided": 50, "polygon_inside": 10, "polygon_outside": 10,
    "cell_points_decided": 10,
    "polyhedron_points_decided": 30, "polyhedron_inside": 8, "polyhedron_outside": 8,
    "polyhedron_nonconvex": 3, "winding_class_points_decided": 10,
    "ccw_polyline_decided": 50, "ccw_polygon_decided": 10,
    "planar_true": 5, "planar_false": 5, "collinear_true": 5, "collinear_false": 5,
    "collinear_only_last_point_off": 2,
    "halfspace_points_decided": 50, "halfspace_inside": 5, "halfspace_outside": 5,
    "chains_closed": 5, "chains_open": 5, "multi_chains": 2, "line_sorts": 3,
    "plane_sorts": 3, "triangle_sorts": 4,
}
ASSUMPTIONS = [
    "all generated coordinates are multiples of 1/4 of modest size, so the float input handed "
    "to porepy is exact and the integer reference decides every sign without rounding",
    "query points closer than 0.1 (exact rational distance) to an edge / face are excluded",
    "rank predicates get pairwise distinct points; compute_normal is only asked for a normal "
    "when the points are not all collinear (documented precondition)",
    "sort_triangle_edges is given edge-connected, edge-manifold, orientable triangulations",
    "sort_point_plane is given points with pairwise distinct directions from the centre",
]
LEVEL_TEXT = ("Every predicate value and every ordering returned on the explored lattice inputs "
              "was decided by exact integer arithmetic; exploration, not proof.")
TECHNIQUE = "reference-model monitor with exact rational geometry oracles"

S = 4                      # coordinates are multiples of 1/S
MARGIN2 = Fr(1, 100)       # (0.1)^2 exclusion margin


def sc(p):
    """Float coordinates (multiples of 1/4) -> exact scaled integers."""
    out = []
    for v in p:
        w = Fr(v) * S
        if w.denominator != 1:
            raise ValueError("coordinate is not a multiple of 1/4")
        out.append(int(w))
    return tuple(out)


KINDS = ["polygon", "cell", "ccw", "planar", "collinear", "halfspace", "polyhedron",
         "chain", "multichain", "online", "planesort", "triedges"]
WEIGHTS = [0.17, 0.06, 0.09, 0.11, 0.14, 0.09, 0.10, 0.09, 0.03, 0.04, 0.04, 0.04]


# =============================================================================== floor
def floor(tier):
    out = []
    unit = [[0, 0], [2, 0], [2, 2], [0, 2]]
    out.append({"kind": "polygon", "poly": unit, "style": "floor-square",
                "pts": [[1, 1], [3, 1], [0.25, 1.75], [2, 2], [1, 0], [-0.25, -0.25]]})
    for name, poly in sh.RECTILINEAR.items():
        pts = [[x / 2 + 0.25, y / 2 + 0.25] for x in range(-1, 11) for y in range(-1, 7)][::3]
        out.append({"kind": "polygon", "poly": [list(p) for p in poly],
                    "style": "floor-" + name, "pts": pts})
        out.append({"kind": "polygon", "poly": [list(p) for p in poly[::-1]],
                    "style": "floor-rev-" + name, "pts": pts[::2]})
    # polygon embedded in 3-D for point_in_cell
    out.append({"kind": "cell", "poly": [list(p) for p in sh.RECTILINEAR["L"]],
                "style": "floor-L", "A": [[1, 0], [0, 1], [0, 0]], "b": [0, 0, 0],
                "pts": [[0.5, 0.5], [1.5, 1.5], [0.5, 1.5], [1.5, 0.5], [2.5, 0.5]]})
    out.append({"kind": "cell", "poly": [list(p) for p in sh.RECTILINEAR["U"]],
                "style": "floor-U", "A": [[1, 0], [1, 1], [0, 2]], "b": [1, -1, 2],
                "pts": [[0.5, 0.5], [1.5, 1.5], [0.5, 1.5], [2.5, 1.5], [1.5, 0.5]]})
    # query points level with polygon vertices (ray through a vertex), polygon in the xy-plane
    for name, pts in (("U", [[2.5, 1.0], [0.5, 1.0], [1.5, 0.5], [3.5, 1.0], [1.5, 2.0]]),
                      ("T", [[1.5, 1.0], [0.5, 1.5], [2.5, 1.5], [3.5, 1.0], [1.5, 0.5]]),
                      ("comb", [[0.5, 1.0], [2.5, 1.0], [4.5, 1.0], [1.5, 2.0], [3.5, 0.5],
                                [4.5, 2.0]]),
                      ("zig", [[1.5, 2.0], [3.0, 2.5], [0.5, 0.5], [3.5, 1.0], [1.5, 1.0]])):
        for shift in ([0, 0, 0], [2, -1, 3]):
            out.append({"kind": "cell", "poly": [list(p) for p in sh.RECTILINEAR[name]],
                        "style": "floor-" + name, "A": [[1, 0], [0, 1], [0, 0]], "b": shift,
                        "pts": pts})
    # ccw
    out.append({"kind": "ccw", "p1": [0, 0], "p2": [1, 1],
                "p3": [[0.5, 0.25], [0.25, 0.75], [0.5, 0.5], [2, 2], [-1, 3]], "tol": 0.0,
                "poly": [[0, 0], [1, 0], [0, 1]]})
    out.append({"kind": "ccw", "p1": [1, 2], "p2": [-2, 0],
                "p3": [[3, 3], [0, 0], [-5, -2], [4, 4]], "tol": 2.5,
                "poly": [[0, 0], [0, 1], [1, 0]]})
    # planar
    out.append({"kind": "planar", "pts": [[0, 0, 0], [1, 0, 0], [0, 1, 0], [1, 1, 0]],
                "normal": None})
    out.append({"kind": "planar", "pts": [[0, 0, 0], [1, 0, 0], [0, 1, 0], [1, 1, 1]],
                "normal": None})
    out.append({"kind": "planar", "pts": [[0, 0, 0], [2, 0, 1], [0, 2, 1], [2, 2, 2], [1, 1, 1]],
                "normal": [1, 1, -2]})
    out.append({"kind": "planar", "pts": [[0, 0, 0], [2, 0, 1], [0, 2, 1], [2, 2, 2]],
                "normal": [0, 0, 1]})
    # collinear: the DESIGN witness (only the last point off the line) and relatives
    out.append({"kind": "collinear",
                "pts": [[-3, -3, -1], [-3, 3, -3], [-3, 0, -2], [3, -3, -2]]})
    out.append({"kind": "collinear", "pts": [[0, 0, 0], [1, 1, 1], [5, 0, 0]]})
    out.append({"kind": "collinear", "pts": [[0, 0, 0], [1, 1, 1], [3, 3, 3]]})
    out.append({"kind": "collinear", "pts": [[0, 0, 0], [1, 1, 1], [2, 2, 3], [3, 3, 3]]})
    out.append({"kind": "collinear", "pts": [[0, 0, 0], [2, 0, 0], [1, 0, 0], [3, 0, 0],
                                             [5, 0, 0], [5, 1, 0]]})
    out.append({"kind": "collinear", "pts": [[1, 2, 3], [4, 5, 6]]})
    out.append({"kind": "collinear", "pts": [[0, 0, 0], [1, 0, 0], [400, 1, 0]]})
    out.append({"kind": "collinear", "pts": [[1000000, 1000000, 0], [1000100, 1000100, 0],
                                             [1000200, 1000203, 0]]})
    out.append({"kind": "collinear", "pts": [[0, 0, 0], [100000, 200000, 300000],
                                             [300000, 600000, 900000], [-100000, -200000, -300000]]})
    # half spaces: unit-ish box, outward normals
    box_n = [[1, 0, 0], [-1, 0, 0], [0, 1, 0], [0, -1, 0], [0, 0, 1], [0, 0, -1]]
    box_x = [[2, 0, 0], [0, 0, 0], [0, 2, 0], [0, 0, 0], [0, 0, 2], [0, 0, 0]]
    out.append({"kind": "halfspace", "n": box_n, "x0": box_x, "bounded": True,
                "pts": [[1, 1, 1], [2, 1, 1], [3, 1, 1], [0, 0, 0], [1, 1, 2.25],
                        [0.25, 1.75, 1], [-0.25, 1, 1]]})
    out.append({"kind": "halfspace", "n": [[0, 1, 0], [1, 0, 0]],
                "x0": [[0, 0, 0], [-1, 0, 0]], "bounded": False,
                "pts": [[-1, 2, 0], [-1, -2, 0], [4, -2, 0], [-3, -1, 5]]})
    # polyhedra
    for name in sorted(sh.NAMED_POLYCUBES):
        cells = sh.NAMED_POLYCUBES[name]
        A = [[1, 0, 0], [0, 1, 0], [0, 0, 1]]
        b = [0, 0, 0]
        faces = sh.polyhedron_from_cells(cells, A, b)
        hi = [max(c[m] for c in cells) + 1 for m in range(3)]
        pts = [[x / 2 + 0.25, y / 2 + 0.25, z / 2 + 0.25]
               for x in range(-1, 2 * hi[0] + 1) for y in range(-1, 2 * hi[1] + 1)
               for z in range(-1, 2 * hi[2] + 1)][::5][:14]
        pts += [[0.5, 0.5, 0.5], [1.0, 0.5, 0.5], [0.5, 1.0, 0.5], [1.0, 0.25, 0.5]]
        out.append({"kind": "polyhedron", "faces": faces, "style": "floor-" + name,
                    "cells": [list(c) for c in cells], "A": A, "b": b, "pts": pts})
    # 2x2x2 block minus one corner cube, scaled by 2 (cube [0,4]^3 minus [2,4]^3): interior
    # points on the prolongation of the re-entrant edges and of face diagonals (collinear
    # with a surface edge without being on it), and on the planes of distant faces
    cells = [(i, j, k) for i in range(2) for j in range(2) for k in range(2)
             if (i, j, k) != (1, 1, 1)]
    A = [[2, 0, 0], [0, 2, 0], [0, 0, 2]]
    b = [0, 0, 0]
    out.append({"kind": "polyhedron", "faces": sh.polyhedron_from_cells(cells, A, b),
                "style": "floor-block-minus-corner", "cells": [list(c) for c in cells],
                "A": A, "b": b,
                "pts": [[1, 2, 2], [2, 1, 2], [2, 2, 1], [0.5, 2, 2], [2, 1.5, 2],
                        [2, 1, 1], [1, 2, 1], [1, 1, 2], [2, 1.5, 1.5], [1.5, 2, 1.5],
                        [1, 1, 1], [3, 3, 3], [3, 1, 1], [2.5, 3.5, 3], [1.5, 0.5, 3],
                        [3.5, 3.5, 0.5], [3, 2.5, 2.5]]})
    A = [[1, 1, 0], [0, 2, 1], [0, 0, 2]]
    out.append({"kind": "polyhedron", "faces": sh.polyhedron_from_cells(cells, A, [1, -2, 0]),
                "style": "floor-block-minus-corner-affine",
                "cells": [list(c) for c in cells], "A": A,
                "b": [1, -2, 0],
                "pts": [[float(v) for v in (np.array(A) @ np.array(q) + np.array([1, -2, 0]))]
                        for q in [[0.5, 1, 1], [1, 0.5, 1], [1, 1, 0.5], [0.25, 1, 1],
                                  [1, 0.75, 0.75], [0.5, 0.5, 1], [1.5, 1.5, 1.5],
                                  [1.5, 0.5, 0.5], [0.5, 0.5, 0.5]]]})
    octa = [[list(p) for p in f] for f in
            [[(2, 0, 0), (0, 2, 0), (0, 0, -1)], [(0, 2, 0), (2, 0, 0), (0, 0, -3)],
             [(0, 2, 0), (-2, 0, 0), (0, 0, -1)], [(-2, 0, 0), (0, 2, 0), (0, 0, -3)],
             [(-2, 0, 0), (0, -2, 0), (0, 0, -1)], [(0, -2, 0), (-2, 0, 0), (0, 0, -3)],
             [(0, -2, 0), (2, 0, 0), (0, 0, -1)], [(2, 0, 0), (0, -2, 0), (0, 0, -3)]]]
    out.append({"kind": "polyhedron", "faces": octa, "style": "floor-dent", "cells": None,
                "A": None, "b": None,
                "pts": [[0, 0, -2], [0, 0, -0.5], [0.5, 0.5, -1.5], [1, 0, -0.25], [0, 0, 1],
                        [0.25, 0.25, -1.25], [1.25, 0.25, -0.75], [-0.75, 0.5, -1]]})
    # chains
    out.append({"kind": "chain", "closed": True, "lines": [[0, 2, 1], [1, 0, 2]]})
    out.append({"kind": "chain", "closed": True,
                "lines": [[5, 9, 7, 5], [7, 3, 9, 3], [1, 2, 3, 4]]})
    out.append({"kind": "chain", "closed": False, "lines": [[3, 1, 2], [1, 2, 0]]})
    out.append({"kind": "chain", "closed": False, "lines": [[2, 4, 4, 9], [9, 7, 2, 0]]})
    out.append({"kind": "chain", "closed": False, "lines": [[3, 1, 2], [1, 2, 0], [17, 18, 19]]})
    out.append({"kind": "multichain",
                "lines": [[0, 2, 1], [1, 0, 2], [5, 7, 9], [7, 9, 5]]})
    out.append({"kind": "multichain",
                "lines": [[0, 3, 1, 2], [1, 0, 2, 3], [4, 6, 7, 5], [5, 7, 4, 6],
                          [9, 8, 11, 10], [8, 11, 10, 9]]})
    # points on a line / in a plane
    out.append({"kind": "online", "p0": [0, 0, 0], "d": [1, 0, 0], "k": [3, 0, 2, -1]})
    out.append({"kind": "online", "p0": [1, -2, 3], "d": [0, 0, -1], "k": [0, 5, 2]})
    out.append({"kind": "online", "p0": [1, 1, 1], "d": [1, 2, -2], "k": [4, -3, 0, 1, 2]})
    out.append({"kind": "planesort", "o": [0, 0, 0], "u": [1, 0, 0], "v": [0, 1, 0],
                "c": [0.0, 0.0], "ab": [[1, 0], [0, 1], [-1, 0], [0, -1], [1, 1], [-1, 2]],
                "normal": None})
    out.append({"kind": "planesort", "o": [1, 2, 3], "u": [1, 1, 0], "v": [0, 1, 2],
                "c": [0.5, 0.5], "ab": [[2, 1], [1, 3], [-2, 1], [0, -2], [3, -1]],
                "normal": 1})
    # triangulations
    out.append({"kind": "triedges", "t": [[0, 1, 2], [1, 2, 3]], "style": "floor-pair"})
    out.append({"kind": "triedges", "t": [[0, 1, 2], [2, 1, 3], [3, 1, 0], [0, 2, 3]],
                "style": "floor-tet"})
    v, t = sh.fan_triangles(octa)
    out.append({"kind": "triedges", "t": [list(x) for x in t], "style": "floor-octa"})
    out.append({"kind": "triedges", "t": [[x[0], x[2], x[1]] if i % 3 == 0 else list(x)
                                          for i, x in enumerate(t)], "style": "floor-octa-mixed"})
    return out


# ============================================================================ generate
def generate(rng, tier, i):
    kind = str(rng.choice(KINDS, p=WEIGHTS))
    if kind == "polygon":
        poly, style = sh.random_polygon(rng)
        return {"kind": kind, "poly": poly, "style": style,
                "pts": sh.query_points_2d(rng, poly, 10)}
    if kind == "cell":
        poly, style = sh.random_polygon(rng)
        for _ in range(100):
            A = rng.integers(-2, 3, size=(3, 2))
            if np.linalg.matrix_rank(A) == 2:
                break
        else:
            A = np.array([[1, 0], [0, 1], [0, 0]])
        if rng.random() < 0.4:     # stay in the xy-plane: exact ties with vertex heights
            A = np.array([[1, 0], [0, 1], [0, 0]])
        return {"kind": kind, "poly": poly, "style": style,
                "A": [[int(v) for v in r] for r in A],
                "b": [int(v) for v in rng.integers(-3, 4, size=3)],
                "pts": sh.query_points_2d(rng, poly, 5)}
    if kind == "ccw":
        R = int(rng.choice([3, 6, 40]))
        p1 = [int(v) for v in rng.integers(-R, R + 1, size=2)]
        p2 = [int(v) for v in rng.integers(-R, R + 1, size=2)]
        n3 = int(rng.integers(1, 8))
        p3 = [[float(v) / 4 for v in rng.integers(-4 * R, 4 * R + 1, size=2)]
              for _ in range(n3)]
        # some points exactly on the line (in-band, excluded)
        if rng.random() < 0.3:
            p3.append([float(2 * p2[0] - p1[0]), float(2 * p2[1] - p1[1])])
        poly, _ = sh.random_polygon(rng)
        return {"kind": kind, "p1": p1, "p2": p2, "p3": p3,
                "tol": float(rng.choice([0.0, 0.0, 0.3, 2.5])), "poly": poly}
    if kind == "planar":
        R = 4
        n = int(rng.integers(3, 8))
        mode = str(rng.choice(["plane", "plane", "random", "one_off"]))
        for _ in range(100):
            o = rng.integers(-R, R + 1, size=3)
            u = rng.integers(-2, 3, size=3)
            v = rng.integers(-2, 3, size=3)
            if not np.any(np.cross(u, v)):
                continue
            if mode == "random":
                pts = rng.integers(-R, R + 1, size=(n, 3))
            else:
                ab = rng.integers(-3, 4, size=(n, 2))
                pts = o + ab[:, [0]] * u + ab[:, [1]] * v
                if mode == "one_off":
                    w = rng.integers(-1, 2, size=3)
                    pts[int(rng.integers(0, n))] += w
            pl = [tuple(int(x) for x in p) for p in pts]
            if len(set(pl)) == n and not ex.points_collinear(pl):
                break
        nsel = str(rng.choice(["none", "none", "true", "other"]))
        normal = None
        if nsel == "true":
            normal = [int(x) for x in np.cross(u, v)]
        elif nsel == "other":
            for _ in range(50):
                normal = [int(x) for x in rng.integers(-3, 4, size=3)]
                if any(normal):
                    break
        return {"kind": kind, "pts": [list(p) for p in pl], "normal": normal}
    if kind == "collinear":
        R = 3
        n = int(rng.integers(3, 7))
        mode = str(rng.choice(["random", "line", "last_off", "one_off", "first_off"],
                              p=[0.25, 0.2, 0.25, 0.2, 0.1]))
        for _ in range(200):
            if mode == "random":
                pts = rng.integers(-R, R + 1, size=(n, 3))
            else:
                p0 = rng.integers(-R, R + 1, size=3)
                d = rng.integers(-2, 3, size=3)
                if not np.any(d):
                    continue
                k = rng.choice(np.arange(-4, 5), size=n, replace=False)
                pts = p0 + k[:, None] * d
                if mode != "line":
                    w = rng.integers(-2, 3, size=3)
                    if not np.any(np.cross(w, d)):
                        continue
                    j = {"last_off": n - 1, "first_off": 0,
                         "one_off": int(rng.integers(0, n))}[mode]
                    pts[j] += w
            if rng.random() < 0.3:
                # long, thin configurations (diameter >> deviation) and uniformly scaled
                # ones: the decision "deviation / diameter" is 0 or clearly above the
                # tolerance, whatever the size of the coordinates
                if mode != "random" and rng.random() < 0.6:
                    pts = np.asarray(pts) + (k[:, None] * d) * int(rng.integers(20, 400))
                else:
                    pts = np.asarray(pts) * int(rng.choice([10, 1000, 100000]))
            pl = [tuple(int(x) for x in p) for p in pts]
            if len(set(pl)) == n:
                P = np.array(pl, dtype=float)
                diam = max(1.0, max(np.linalg.norm(a - b) for a in P for b in P))
                dev = max(np.linalg.norm(np.cross(q - P[0], P[1] - P[0])) for q in P) / diam
                if dev == 0 or dev >= 1e-3:          # exact zero or far above tol = 1e-5
                    break
        return {"kind": kind, "pts": [list(p) for p in pl]}
    if kind == "halfspace":
        bounded = bool(rng.random() < 0.5)
        if bounded:
            got = sh.random_polyhedron(rng, style=str(rng.choice(["box", "tet", "prism", "octa"])))
            faces = got[0]
            verts, tris = sh.fan_triangles(faces)
            tris = sh.orient_consistently(tris)
            if ex.signed_volume6(verts, tris) < 0:
                tris = [(t[0], t[2], t[1]) for t in tris]
            n, x0 = [], []
            for t in tris:
                a, b_, c = verts[t[0]], verts[t[1]], verts[t[2]]
                n.append(list(ex.cross3(ex.sub(b_, a), ex.sub(c, a))))
                x0.append(list(a))
            allp = np.array(verts)
            lo, hi = allp.min(0), allp.max(0)
        else:
            k = int(rng.integers(1, 6))
            c = rng.integers(-2, 3, size=3)
            n, x0 = [], []
            while len(n) < k:
                nn = rng.integers(-3, 4, size=3)
                if not np.any(nn):
                    continue
                x = c + rng.integers(-2, 3, size=3)
                if np.dot(x - c, nn) < 0:
                    nn = -nn
                n.append([int(v) for v in nn])
                x0.append([int(v) for v in x])
            lo, hi = c - 3, c + 3
        pts = [[float(rng.integers(4 * lo[m] - 2, 4 * hi[m] + 3)) / 4 for m in range(3)]
               for _ in range(10)]
        pts.append([float(v) for v in x0[0]])      # on a boundary plane
        out = {"kind": kind, "n": n, "x0": x0, "pts": pts, "bounded": bounded}
        if bounded:
            out["verts"] = [list(v) for v in verts]
        return out
    if kind == "polyhedron":
        got = sh.random_polyhedron(rng)
        faces, style, cells, A, b = got
        return {"kind": kind, "faces": faces, "style": style,
                "cells": None if cells is None else [list(c) for c in cells],
                "A": A, "b": b, "pts": sh.query_points_3d(rng, faces, cells, A, b, 8)}
    if kind == "chain":
        closed = bool(rng.random() < 0.5)
        tags = int(rng.choice([0, 0, 1, 2]))
        hi = int(rng.choice([14, 30, 1000]))
        return {"kind": kind, "closed": closed,
                "lines": sh.random_chain(rng, closed, tags=tags, label_hi=hi)}
    if kind == "multichain":
        nc = int(rng.integers(1, 5))
        L = int(rng.integers(3, 8))
        rows = []
        for _ in range(nc):
            rows += sh.random_chain(rng, True, n=L, tags=0, label_hi=40)
        return {"kind": kind, "lines": rows}
    if kind == "online":
        for _ in range(100):
            d = rng.integers(-3, 4, size=3)
            if np.any(d):
                break
        n = int(rng.integers(2, 9))
        return {"kind": kind, "p0": [int(v) for v in rng.integers(-5, 6, size=3)],
                "d": [int(v) for v in d],
                "k": [int(v) for v in rng.choice(np.arange(-6, 7), size=n, replace=False)]}
    if kind == "planesort":
        for _ in range(200):
            u = rng.integers(-2, 3, size=3)
            v = rng.integers(-2, 3, size=3)
            if not np.any(np.cross(u, v)):
                continue
            n = int(rng.integers(3, 9))
            c = [float(v_) / 2 for v_ in rng.integers(-2, 3, size=2)]
            ab = rng.integers(-4, 5, size=(n, 2))
            dirs = [(Fr(int(a)) - Fr(c[0]), Fr(int(b)) - Fr(c[1])) for a, b in ab]
            ok = all(d != (0, 0) for d in dirs)
            for i_ in range(n):
                for j_ in range(i_ + 1, n):
                    cr = dirs[i_][0] * dirs[j_][1] - dirs[i_][1] * dirs[j_][0]
                    dt = dirs[i_][0] * dirs[j_][0] + dirs[i_][1] * dirs[j_][1]
                    if cr == 0 and dt > 0:
                        ok = False
            pl = [tuple(int(a) * u + int(b) * v) for a, b in ab]
            if ok and not ex.points_collinear([tuple(int(x) for x in p) for p in pl]):
                break
        return {"kind": kind, "o": [int(x) for x in rng.integers(-3, 4, size=3)],
                "u": [int(x) for x in u], "v": [int(x) for x in v], "c": c,
                "ab": [[int(a), int(b)] for a, b in ab],
                "normal": [None, 1, -1][int(rng.integers(0, 3))]}
    if kind == "triedges":
        if rng.random() < 0.5:
            t = sh.planar_triangulation(rng)
            style = "delaunay"
        else:
            faces, style, *_ = sh.random_polyhedron(rng)
            _, t = sh.fan_triangles(faces)
            style = "surface-" + style
        return {"kind": kind, "t": sh.scramble_triangles(rng, t), "style": style}
    raise AssertionError(kind)


def warmup():
    """numba compilation (uniquify_point_set inside point_in_polyhedron, chain sorter)."""
    import porepy as pp
    pp.array_operations.uniquify_point_set(np.array([[0.0, 1.0], [0.0, 1.0], [0.0, 0.0]]), 1e-10)
    pp.sort_points.sort_multiple_point_pairs(np.array([[0, 2, 1], [1, 0, 2]], dtype=np.int64))


# =============================================================================== check
def check(case, mon):
    kind = case["kind"]
    mon.klass(kind)
    mon.count("cases_" + kind)
    globals()["_check_" + kind](case, mon)


def _as_bool(x):
    return bool(np.asarray(x).ravel()[0]) if np.asarray(x).size == 1 else None


# ---------------------------------------------------------------------------- polygon
def _check_polygon(case, mon):
    from porepy.geometry import geometry_property_checks as gpc
    poly = [tuple(p) for p in case["poly"]]
    polyS = [sc(p) for p in poly]
    if not ex.polygon_is_simple(polyS):
        mon.inconclusive("generated polygon is not simple")
        return
    mon.klass("polygon:" + case.get("style", "?").replace("floor-", "").replace("rev-", ""))
    P = np.array(poly, dtype=float).T
    pts = [tuple(p) for p in case["pts"]]
    Q = np.array(pts, dtype=float).T
    got_f = gpc.point_in_polygon(P, Q.copy(), default=False)
    got_t = gpc.point_in_polygon(P, Q.copy(), default=True)
    one = gpc.point_in_polygon(P, Q[:, 0].copy())
    mon.count("point_in_polygon_calls", 3)
    ins = outs = 0
    for i, q in enumerate(pts):
        qS = sc(q)
        d2 = ex.min_dist2_to_polygon_boundary(qS, polyS) / (S * S)
        if d2 <= MARGIN2:
            mon.excluded("polygon query point within 0.1 of an edge")
            continue
        want = ex.point_in_polygon(qS, polyS)
        if want != (ex.winding_number_polygon(qS, polyS) != 0):
            mon.inconclusive("crossing number and winding number references disagree")
            return
        mon.count("polygon_points_decided")
        mon.count("polygon_inside" if want else "polygon_outside")
        ins += want
        outs += not want
        n = len(polyS)
        on_line = any(ex.cross2(ex.sub(polyS[(k + 1) % n], polyS[k]), ex.sub(qS, polyS[k])) == 0
                      for k in range(n))
        if on_line:
            mon.count("polygon_points_on_an_edge_line")
        for tag, got in (("default=False", got_f[i]), ("default=True", got_t[i])):
            if bool(got) != want:
                if on_line and bool(got) == (tag == "default=True"):
                    # far from the boundary, yet answered with ``default``
                    mon.violation("point_in_polygon:point-on-extended-edge-line-gets-default",
                                  {"poly": case["poly"], "q": q, "got": bool(got),
                                   "want": want, "call": tag})
                else:
                    mon.violation("point_in_polygon:wrong-side",
                                  {"poly": case["poly"], "q": q, "got": bool(got),
                                   "want": want, "call": tag})
        if i == 0 and bool(one[0]) != want:
            mon.violation("point_in_polygon:single-point-call", {"q": q})
    mon.nontrivial(ins > 0 and outs > 0)
    # orientation predicate on the same polygon
    want_ccw = ex.polygon_area2(polyS) > 0
    got = gpc.is_ccw_polygon(P)
    mon.count("ccw_polygon_decided")
    if bool(got) != want_ccw:
        mon.violation("is_ccw_polygon:wrong-orientation", {"poly": case["poly"]})


def _check_cell(case, mon):
    from porepy.geometry import geometry_property_checks as gpc
    A = case["A"]
    b = case["b"]
    poly2 = [tuple(p) for p in case["poly"]]
    polyS = [sc(p) for p in poly2]
    if not ex.polygon_is_simple(polyS):
        mon.inconclusive("generated polygon is not simple")
        return
    poly3 = [sh.apply_affine(A, b, p) for p in poly2]
    P3 = np.array(poly3, dtype=float).T
    plane_is_xy = all(p[2] == poly3[0][2] for p in poly3)
    ins = outs = 0
    for q2 in case["pts"]:
        q2 = tuple(q2)
        q3 = sh.apply_affine(A, b, q2)
        q3S = sc(q3)
        p3S = [sc(p) for p in poly3]
        n = len(p3S)
        d2 = min(ex.dist2_point_segment(q3S, p3S[i], p3S[(i + 1) % n]) for i in range(n))
        if d2 / (S * S) <= MARGIN2:
            mon.excluded("cell query point within 0.1 of an edge")
            continue
        want = ex.point_in_polygon(sc(q2), polyS)
        got = gpc.point_in_cell(P3.copy(), np.array(q3, dtype=float).reshape(3, 1), True)
        mon.count("cell_points_decided")
        mon.count("point_in_cell_calls")
        ins += want
        outs += not want
        if bool(got) != want:
            mon.violation("point_in_cell:wrong-side",
                          {"poly3": [list(p) for p in poly3], "q": list(q3), "want": want})
        if plane_is_xy:
            got2 = gpc.point_in_cell(P3.copy(), np.array(q3, dtype=float).reshape(3, 1), False)
            mon.count("point_in_cell_calls")
            if bool(got2) != want:
                mon.violation("point_in_cell:wrong-side-no-projection",
                              {"poly3": [list(p) for p in poly3], "q": list(q3)})
    mon.nontrivial(ins > 0 and outs > 0)


# -------------------------------------------------------------------------------- ccw
def _check_ccw(case, mon):
    from porepy.geometry import geometry_property_checks as gpc
    p1 = tuple(case["p1"])
    p2 = tuple(case["p2"])
    p3 = [tuple(p) for p in case["p3"]]
    tol = float(case["tol"])
    a, b = sc(p1), sc(p2)
    P3 = np.array(p3, dtype=float).T
    signs = set()
    for default in (False, True):
        got = gpc.is_ccw_polyline(np.array(p1, float), np.array(p2, float), P3.copy(),
                                  tol=tol, default=default)
        mon.count("is_ccw_polyline_calls")
        if got.shape != (len(p3),):
            mon.violation("is_ccw_polyline:shape", {"shape": list(got.shape)})
            return
        for i, q in enumerate(p3):
            cr = Fr(ex.cross2(ex.sub(b, a), ex.sub(sc(q), a)), S * S)
            if abs(cr) <= Fr(tol):
                mon.excluded("ccw: cross product inside the tolerance band")
                continue
            want = cr > 0
            mon.count("ccw_polyline_decided")
            signs.add(want)
            if bool(got[i]) != want:
                mon.violation("is_ccw_polyline:wrong-side",
                              {"p1": p1, "p2": p2, "p3": q, "tol": tol, "default": default})
    # single point form
    q = p3[0]
    cr = Fr(ex.cross2(ex.sub(b, a), ex.sub(sc(q), a)), S * S)
    if abs(cr) > Fr(tol):
        got = gpc.is_ccw_polyline(np.array(p1, float), np.array(p2, float),
                                  np.array(q, float), tol=tol)
        mon.count("is_ccw_polyline_calls")
        if got.shape != (1,) or bool(got[0]) != (cr > 0):
            mon.violation("is_ccw_polyline:single-point-call", {"p3": q})
    mon.nontrivial(len(signs) == 2)
    poly = [sc(p) for p in case["poly"]]
    if ex.polygon_is_simple(poly):
        got = gpc.is_ccw_polygon(np.array(case["poly"], dtype=float).T)
        mon.count("ccw_polygon_decided")
        if bool(got) != (ex.polygon_area2(poly) > 0):
            mon.violation("is_ccw_polygon:wrong-orientation", {"poly": case["poly"]})


# ------------------------------------------------------------------------------ planar
def _check_planar(case, mon):
    from porepy.geometry import geometry_property_checks as gpc
    pts = [tuple(int(x) for x in p) for p in case["pts"]]
    if len(set(pts)) != len(pts):
        mon.excluded("rank predicate: coincident points")
        return
    P = np.array(pts, dtype=float).T
    normal = case.get("normal")
    if normal is None:
        if ex.points_collinear(pts):
            mon.excluded("planarity without normal needs three non-aligned points")
            return
        want = ex.points_coplanar(pts)
        # distance from the tolerance band: smallest singular value of the centred cloud
        if not want:
            s = np.linalg.svd(P - P.mean(axis=1, keepdims=True), compute_uv=False)
            mon.measure("planar_false_sigma_min", s[-1])
            if s[-1] < 1e-2:
                mon.excluded("non-planar set too close to the tolerance band")
                return
        got = gpc.points_are_planar(P.copy())
        mon.count("points_are_planar_calls")
        mech = "points_are_planar:wrong-answer"
    else:
        nn = tuple(int(x) for x in normal)
        cpn = sum(ex.dot(nn, p) for p in pts)
        # n.(p - mean) = 0 for all p  <=>  N n.p = sum n.p
        want = all(len(pts) * ex.dot(nn, p) == cpn for p in pts)
        if not want:
            dev = max(abs(ex.dot(nn, p) - Fr(cpn, len(pts))) for p in pts) / math.sqrt(ex.dot(nn, nn))
            if dev < 1e-2:
                mon.excluded("non-planar set too close to the tolerance band")
                return
        got = gpc.points_are_planar(P.copy(), normal=np.array(nn, dtype=float))
        mon.count("points_are_planar_calls")
        mech = "points_are_planar:wrong-answer-given-normal"
    mon.count("planar_true" if want else "planar_false")
    mon.nontrivial(len(pts) >= 4)
    if bool(got) != want:
        mon.violation(mech, {"pts": case["pts"], "normal": normal, "got": bool(got),
                             "want": want})


def _check_collinear(case, mon):
    from porepy.geometry import geometry_property_checks as gpc
    pts = [tuple(int(x) for x in p) for p in case["pts"]]
    if len(set(pts)) != len(pts):
        mon.excluded("rank predicate: coincident points")
        return
    want = ex.points_collinear(pts)
    P = np.array(pts, dtype=float).T
    got = gpc.points_are_collinear(P.copy())
    mon.count("points_are_collinear_calls")
    mon.count("collinear_true" if want else "collinear_false")
    mon.nontrivial(len(pts) >= 3)
    head_collinear = ex.points_collinear(pts[:-1])
    if not want and head_collinear and len(pts) >= 3:
        mon.count("collinear_only_last_point_off")
    if bool(got) != want:
        if got and not want and head_collinear:
            mon.violation("points_are_collinear:last-point-not-tested",
                          {"pts": case["pts"], "got": True, "want": False})
        else:
            mon.violation("points_are_collinear:wrong-answer",
                          {"pts": case["pts"], "got": bool(got), "want": want})


# --------------------------------------------------------------------------- halfspace
def _check_halfspace(case, mon):
    from porepy.geometry import half_space as hs
    n = [tuple(int(x) for x in v) for v in case["n"]]
    x0 = [tuple(int(x) for x in v) for v in case["x0"]]
    pts = [tuple(p) for p in case["pts"]]
    Nn = np.array(n, dtype=float).T
    X0 = np.array(x0, dtype=float).T
    Q = np.array(pts, dtype=float).T
    got = hs.point_inside_half_space_intersection(Nn.copy(), X0.copy(), Q.copy())
    mon.count("half_space_calls")
    ins = outs = 0
    for i, q in enumerate(pts):
        qS = sc(q)
        vals = [ex.dot(nn, ex.sub(qS, tuple(S * c for c in xx))) for nn, xx in zip(n, x0)]
        want = all(v <= 0 for v in vals)
        on_bnd = want and any(v == 0 for v in vals)
        mon.count("halfspace_points_decided")
        if on_bnd:
            mon.count("halfspace_on_boundary_plane")
        mon.count("halfspace_inside" if want else "halfspace_outside")
        ins += want
        outs += not want
        if bool(got[i]) != want:
            mon.violation("half_space:boundary-point-not-inside" if on_bnd
                          else "half_space:wrong-side",
                          {"n": case["n"], "x0": case["x0"], "q": q, "want": want})
    mon.nontrivial(ins > 0 and outs > 0)
    if case.get("bounded"):
        # half_space_interior_point is not a predicate of the statement: it is only observed
        # (reach + counters), never asserted.  Seen while building this check: it raises
        # "Half space intersection empty" whenever the origin is interior (unbounded LP).
        B = np.array(case.get("verts", case["x0"]), dtype=float).T
        origin_inside = all(ex.dot(nn, tuple(-c for c in xx)) < 0 for nn, xx in zip(n, x0))
        try:
            p = hs.half_space_interior_point(Nn.copy(), X0.copy(), B)
            val = np.sum((p.reshape(3, 1) - X0) * Nn, axis=0) / np.linalg.norm(Nn, axis=0)
            mon.count("observed_only:interior_point_returned")
            mon.measure("observed_only:interior_point_margin", float(-val.max()))
        except ValueError:
            mon.count("observed_only:interior_point_raises_origin_inside" if origin_inside
                      else "observed_only:interior_point_raises_other")


# -------------------------------------------------------------------------- polyhedron
def _check_polyhedron(case, mon):
    import porepy as pp
    from porepy.geometry import geometry_property_checks as gpc
    faces = [[tuple(int(x) for x in p) for p in f] for f in case["faces"]]
    verts, tris = sh.fan_triangles(faces)
    if not sh.surface_ok(verts, tris):
        mon.inconclusive("generated surface is not a closed connected manifold")
        return
    tris_o = sh.orient_consistently(tris)
    vol6 = ex.signed_volume6(verts, tris_o)
    style = case.get("style", "?").replace("floor-", "")
    mon.klass("polyhedron:" + style)
    vS = [tuple(S * c for c in v) for v in verts]
    cells = case.get("cells")
    pts = [tuple(p) for p in case["pts"]]
    decided = []
    for q in pts:
        qS = sc(q)
        d2 = ex.min_dist2_to_surface(qS, vS, tris) / (S * S)
        if d2 <= MARGIN2:
            mon.excluded("polyhedron query point within 0.1 of a face")
            continue
        par = ex.ray_parity(qS, vS, tris)
        if par is None:
            mon.excluded("ray casting degenerate in all directions")
            continue
        want = par % 2 == 1
        decided.append((q, qS, want))
    if cells is not None:
        # second, independent reference: membership by construction in the polycube
        A = np.array(case["A"], dtype=float)
        b = np.array(case["b"], dtype=float)
        cset = {tuple(c) for c in cells}
        for q, qS, want in decided:
            q0 = np.linalg.solve(A, np.array(q) - b)
            q0 = [Fr(round(v * 64), 64) for v in q0]
            touching = [[]]
            for v in q0:
                opts = [math.floor(v)] if v.denominator != 1 else [int(v) - 1, int(v)]
                touching = [t + [o] for t in touching for o in opts]
            memb = [tuple(t) in cset for t in touching]
            by_constr = all(memb)
            if by_constr != want or (not by_constr and any(memb)):
                mon.inconclusive("ray casting and membership-by-construction disagree")
                return
    nonconvex = False
    for f in faces:   # some vertex strictly on the positive and some on the negative side
        n = ex.cross3(ex.sub(f[1], f[0]), ex.sub(f[2], f[0]))
        sg = {ex.sign(ex.dot(n, ex.sub(v, f[0]))) for v in verts}
        if 1 in sg and -1 in sg:
            nonconvex = True
    if nonconvex:
        mon.count("polyhedron_nonconvex")
    if not decided:
        return
    F = [np.array(f, dtype=float).T for f in faces]
    Q = np.array([q for q, _, _ in decided], dtype=float).T
    got = gpc.point_in_polyhedron(F, Q.copy())
    mon.count("point_in_polyhedron_calls")
    ins = outs = 0
    for i, (q, qS, want) in enumerate(decided):
        mon.count("polyhedron_points_decided")
        mon.count("polyhedron_inside" if want else "polyhedron_outside")
        ins += want
        outs += not want
        onplane = ex.on_plane_of_some_triangle(qS, vS, tris)
        if onplane:
            mon.count("polyhedron_points_on_a_face_plane")
        if bool(got[i]) != want:
            if want and onplane:
                mon.violation("point_in_polyhedron:interior-point-on-plane-of-distant-face",
                              {"faces": case["faces"], "q": q, "got": False, "want": True})
            else:
                mon.violation("point_in_polyhedron:wrong-side",
                              {"faces": case["faces"], "q": q, "got": bool(got[i]),
                               "want": want, "on_face_plane": onplane})
    mon.nontrivial(ins > 0 and outs > 0)
    # the class itself, with an orientation computed by the harness
    V = np.array(verts, dtype=float)
    T = np.array(tris_o, dtype=int)
    obj = pp.point_in_polyhedron.PointInPolyhedron(V, T, 1e-10)
    for q, qS, want in decided:
        try:
            wn = obj.winding_number(np.array(q, dtype=float))
        except ValueError as e:
            if "Origin point" in str(e):
                mon.excluded("PointInPolyhedron: documented ValueError for a point on the "
                             "plane / edge line of a triangle")
                continue
            raise
        mon.count("winding_class_points_decided")
        want_wn = (1 if vol6 > 0 else -1) if want else 0
        mon.close("winding_number", wn, float(want_wn), 1e-9,
                  "PointInPolyhedron:winding-number", scale=1.0,
                  detail={"faces": case["faces"], "q": q})


# ------------------------------------------------------------------------------ chains
def _undirected(cols):
    return sorted(tuple(sorted((int(a), int(b)))) for a, b in cols)


def _check_chain(case, mon):
    import porepy as pp
    lines = np.array(case["lines"], dtype=int)
    closed = bool(case["closed"])
    nrows, n = lines.shape
    tagged = nrows > 2
    mon.count("chains_closed" if closed else "chains_open")
    if tagged:
        mon.count("chains_with_tag_rows")
    mon.nontrivial(n >= 3)
    inp = lines.copy()
    try:
        srt, ind = pp.sort_points.sort_point_pairs(inp, check_circular=True,
                                                   is_circular=closed)
    except (IndexError, AssertionError) as e:
        nodes = set(lines[:2].ravel().tolist())
        if tagged and not closed and (set(lines[2:].ravel().tolist()) & nodes):
            mon.violation("sort_point_pairs:open-chain-tag-rows-counted-as-nodes",
                          {"lines": case["lines"], "error": repr(e)[:200]})
            return
        raise
    mon.count("sort_point_pairs_calls")
    bad = None
    if srt.shape != lines.shape or ind.shape != (n,):
        bad = "shape"
    elif sorted(ind.tolist()) != list(range(n)):
        bad = "sort_ind is not a permutation"
    elif any(srt[1, i] != srt[0, i + 1] for i in range(n - 1)):
        bad = "consecutive pairs do not share a node"
    elif closed and srt[1, -1] != srt[0, 0]:
        bad = "chain not closed"
    elif _undirected(srt[:2].T) != _undirected(lines[:2].T):
        bad = "edge multiset changed"
    elif any(tuple(sorted(srt[:2, i])) != tuple(sorted(lines[:2, ind[i]])) for i in range(n)):
        bad = "sort_ind does not map input to output"
    elif tagged and not np.array_equal(srt[2:], lines[2:, ind]):
        bad = "tag rows not carried along"
    if bad:
        nodes = set(lines[:2].ravel().tolist())
        if tagged and not closed and (set(lines[2:].ravel().tolist()) & nodes):
            mon.violation("sort_point_pairs:open-chain-tag-rows-counted-as-nodes",
                          {"lines": case["lines"], "what": bad})
        else:
            mon.violation("sort_point_pairs:invalid-chain",
                          {"lines": case["lines"], "closed": closed, "what": bad,
                           "sorted": srt.tolist()})
    if not np.array_equal(inp, lines):
        mon.violation("sort_point_pairs:input-mutated", {"lines": case["lines"]})


def _check_multichain(case, mon):
    import porepy as pp
    lines = np.ascontiguousarray(np.array(case["lines"], dtype=np.int64))
    nc = lines.shape[0] // 2
    L = lines.shape[1]
    out = np.asarray(pp.sort_points.sort_multiple_point_pairs(lines.copy()))
    mon.count("sort_multiple_point_pairs_calls")
    mon.count("multi_chains", nc)
    mon.nontrivial(nc >= 2 and L >= 3)
    if out.shape != lines.shape:
        mon.violation("sort_multiple_point_pairs:shape", {"shape": list(out.shape)})
        return
    for c in range(nc):
        s = out[2 * c:2 * c + 2]
        o = lines[2 * c:2 * c + 2]
        bad = None
        if any(s[1, i] != s[0, i + 1] for i in range(L - 1)):
            bad = "consecutive pairs do not share a node"
        elif s[1, -1] != s[0, 0]:
            bad = "chain not closed"
        elif _undirected(s.T) != _undirected(o.T):
            bad = "edge multiset changed"
        if bad:
            mon.violation("sort_multiple_point_pairs:invalid-chain",
                          {"lines": case["lines"], "chain": c, "what": bad,
                           "sorted": s.tolist()})


def _check_online(case, mon):
    import porepy as pp
    p0 = np.array(case["p0"], dtype=float)
    d = np.array(case["d"], dtype=float)
    k = [int(v) for v in case["k"]]
    P = (p0[:, None] + d[:, None] * np.array(k, dtype=float)[None, :])
    ind = np.asarray(pp.sort_points.sort_points_on_line(P.copy()))
    mon.count("sort_points_on_line_calls")
    mon.count("line_sorts")
    mon.nontrivial(len(k) >= 3)
    if sorted(ind.tolist()) != list(range(len(k))):
        mon.violation("sort_points_on_line:not-a-permutation",
                      {"case": case, "ind": ind.tolist()})
        return
    ks = [k[i] for i in ind.tolist()]
    inc = all(a < b for a, b in zip(ks, ks[1:]))
    dec = all(a > b for a, b in zip(ks, ks[1:]))
    if not (inc or dec):
        mon.violation("sort_points_on_line:not-monotone", {"case": case, "ind": ind.tolist()})


def _check_planesort(case, mon):
    import porepy as pp
    o = np.array(case["o"], dtype=float)
    u = np.array(case["u"], dtype=float)
    v = np.array(case["v"], dtype=float)
    c2 = case["c"]
    ab = [tuple(int(x) for x in p) for p in case["ab"]]
    n = len(ab)
    P = np.array([o + a * u + b * v for a, b in ab]).T
    centre = o + c2[0] * u + c2[1] * v
    normal = None
    if case.get("normal") is not None:
        normal = float(case["normal"]) * np.cross(u, v)
    ind = np.asarray(pp.sort_points.sort_point_plane(P.copy(), centre.copy(), normal))
    mon.count("sort_point_plane_calls")
    mon.count("plane_sorts")
    mon.nontrivial(n >= 4)
    if sorted(ind.tolist()) != list(range(n)):
        mon.violation("sort_point_plane:not-a-permutation", {"case": case, "ind": ind.tolist()})
        return
    dirs = [(Fr(a) - Fr(c2[0]), Fr(b) - Fr(c2[1])) for a, b in ab]

    def half(dv):   # 0 for angle in [0, pi), 1 for [pi, 2 pi)
        return 0 if (dv[1] > 0 or (dv[1] == 0 and dv[0] > 0)) else 1
    import functools

    def cmp(i, j):
        hi, hj = half(dirs[i]), half(dirs[j])
        if hi != hj:
            return hi - hj
        cr = dirs[i][0] * dirs[j][1] - dirs[i][1] * dirs[j][0]
        return -1 if cr > 0 else (1 if cr < 0 else 0)
    ccw = sorted(range(n), key=functools.cmp_to_key(cmp))
    got = ind.tolist()

    def rotations(seq):
        return [seq[r:] + seq[:r] for r in range(len(seq))]
    if got not in rotations(ccw) and got not in rotations(ccw[::-1]):
        mon.violation("sort_point_plane:not-a-cyclic-angular-order",
                      {"case": case, "ind": got, "ccw": ccw})


def _check_triedges(case, mon):
    import porepy as pp
    tris = [tuple(int(x) for x in t) for t in case["t"]]
    t = np.array(tris, dtype=int).T
    out = np.asarray(pp.sort_points.sort_triangle_edges(t.copy()))
    mon.count("sort_triangle_edges_calls")
    mon.count("triangle_sorts")
    mon.klass("triedges:" + case.get("style", "?").replace("floor-", ""))
    mon.nontrivial(len(tris) >= 2)
    if out.shape != t.shape:
        mon.violation("sort_triangle_edges:shape", {"shape": list(out.shape)})
        return
    seen = set()
    for j in range(out.shape[1]):
        col = [int(x) for x in out[:, j]]
        if sorted(col) != sorted(tris[j]):
            mon.violation("sort_triangle_edges:vertex-set-changed",
                          {"t": case["t"], "column": j, "got": col})
            return
        for m in range(3):
            e = (col[m], col[(m + 1) % 3])
            if e in seen:
                mon.violation("sort_triangle_edges:directed-edge-twice",
                              {"t": case["t"], "edge": list(e), "sorted": out.T.tolist()})
                return
            seen.add(e)
