"""C14 FV discretizations do not depend on how the grid is split.

Monitor: for one generated (grid, heterogeneous tensors, mixed boundary types) the real
``Mpfa`` / ``Mpsa`` / ``Biot`` ``discretize`` is run (a) in one piece, (b) with
``partition_arguments`` forcing several sub-problems (by number or by memory bound), (c) as a
partial discretization on ``specified_nodes`` / ``specified_cells`` / ``specified_faces`` and
(d) with the pure-python local inverter.  Every matrix found in the matrix dictionary (incl.
the nested Biot coupling dictionaries and the vector-source matrices) is compared with the
one-piece numba result: everywhere for (b) and (d), on the targeted rows for (c).  A recording
wrapper on ``_fvutils.subproblems`` notes how many sub-grids were really yielded and how many
of them were proper sub-grids; only those runs count as split cases.
"""
from __future__ import annotations

import numpy as np
import scipy.sparse as sps

import porepy as pp
from porepy.numerics.fv import _fvutils

from pvm.gen import grids as gg
from pvm.gen import c11_fvsetup as fs

PROP = "C14"
N = {"quick": 20, "thorough": 1200}
WORKERS = {"quick": 4, "thorough": 16}
TIMEOUT = {"quick": 900, "thorough": 3000}
CASE_TIMEOUT = 200.0
RULE = ("discretization in {mpfa, mpsa, biot} x seeded grids (2-D: Cartesian, tensor, "
        "structured/Delaunay triangles, mixed polygons, up to 8x6; 3-D: Cartesian, tensor, "
        "tetrahedra, prisms, up to 5x3x3; optionally perturbed / affine) x cell-wise "
        "heterogeneous tensors (SPD permeability, Lame parameters, scalar and tensor Biot "
        "coefficients under two coupling keywords) x random per-face Dirichlet/Neumann types; "
        "split by num_subproblems n = 2..8 or by max_memory = peak/n; partial update sets: all "
        "nodes of a random cell patch, the patch cells, or 1-3 random faces; non-trivial = the "
        "split run yielded >= 2 sub-grids of which >= 1 is a proper sub-grid; distinct = case "
        "hash")
REACH = [
    ("numerics/fv/_fvutils.py", "subproblems"),
    ("numerics/fv/_fvutils.py", "remove_nonlocal_contribution"),
    ("numerics/fv/_fvutils.py", "find_active_indices"),
    ("numerics/fv/_fvutils.py", "cell_ind_for_partial_update"),
    ("numerics/fv/mpfa.py", "Mpfa.discretize"),
    ("numerics/fv/mpsa.py", "Mpsa.discretize"),
    ("numerics/fv/biot.py", "Biot.discretize"),
    ("grids/partition.py", "extract_subgrid"),
    ("grids/partition.py", "subgrid_to_grid_mapping"),
]
REACH_LINES = [
    ("numerics/fv/_fvutils.py", "part: np.ndarray = pp.partition.partition(sd, num_part)"),
    ("numerics/fv/_fvutils.py", "num_part: int = np.ceil(peak_memory_estimate / max_memory)"),
    ("numerics/fv/mpfa.py", "active_flux += face_map * loc_flux * cell_map"),
    ("numerics/fv/mpfa.py", "scaling = sps.dia_matrix((1.0 / num_face_repetitions, 0), shape=(nf, nf))"),
]
REQUIRED = {"split_runs_proper": 10, "subgrids_yielded": 40, "proper_subgrids": 30,
            "faces_discretized_more_than_once": 20,
            "matrices_compared_split": 100, "matrices_compared_partial": 100,
            "matrices_compared_inverter": 100, "partial_runs": 12,
            "partial_active_face_rows": 200, "partial_cell_rows": 10,
            "discr_mpfa": 4, "discr_mpsa": 4, "discr_biot": 4,
            "split_by_max_memory": 4, "split_by_num_subproblems": 4,
            "partial_nodes": 3, "partial_cells": 3, "partial_faces": 3}
ASSUMPTIONS = [
    "3-D mechanics: Neumann faces never share a node (documented limitation of 3-D MPSA, see "
    "C13), 2-D: any per-face mix; at least one Dirichlet face",
    "partial discretization is requested through specified_nodes/cells/faces on an empty "
    "matrix dictionary (the 'update_discretization' flag, documented as not fully tested, is "
    "not used); face-row matrices are compared on parameter_dictionary['active_faces'] "
    "(expanded by nd for vector rows), cell-row Biot matrices on the cells the update was "
    "specified for (patch cells / cells adjacent to the specified faces)",
    "tolerance 1e-9 relative to the largest entry of the matrix",
]
LEVEL_TEXT = ("Exploration: on every generated configuration all MPFA / MPSA / Biot matrices "
              "(incl. nested coupling dictionaries) agree to 1e-9 relative between one-piece, "
              "multi-subproblem (recorded proper splits), partial (on targeted rows) and "
              "python-inverter discretizations.")
TECHNIQUE = "differential monitor: forced partitions / partial updates / inverter back-ends vs one-piece"
TOL = 1e-9

# --------------------------------------------------------- recording wrapper (subproblems)
_RECORD: list = []


def _install_wrapper():
    if getattr(_fvutils.subproblems, "_pvm_wrapped", False):
        return
    orig = _fvutils.subproblems

    def subproblems(sd, *args, **kwargs):
        rec = {"grid_cells": int(sd.num_cells), "yielded": 0, "proper": 0, "faces": []}
        _RECORD.append(rec)
        for item in orig(sd, *args, **kwargs):
            rec["yielded"] += 1
            sub = item[0]
            if sub.num_cells < sd.num_cells:
                rec["proper"] += 1
            rec["faces"].append(np.asarray(item[1]).copy())
            yield item

    subproblems._pvm_wrapped = True
    subproblems._pvm_orig = orig
    _fvutils.subproblems = subproblems


# --------------------------------------------------------------------------------- cases
KINDS2 = ["cart", "tensor", "tri", "delaunay", "poly"]
KINDS3 = ["cart", "tensor", "tet", "prism"]


def _draw_recipe(rng, dim, big):
    for _ in range(40):
        if dim == 2:
            kind = str(rng.choice(KINDS2))
            n = [int(rng.integers(3, 9 if big else 7)), int(rng.integers(2, 7 if big else 5))]
            if kind in ("tri", "delaunay", "poly"):
                n = [min(n[0], 6), min(n[1], 4)]
        else:
            kind = str(rng.choice(KINDS3))
            n = [int(rng.integers(2, 6 if big else 5)), int(rng.integers(2, 4)),
                 int(rng.integers(1, 4 if big else 3))]
            if kind in ("tet", "prism"):
                n = [min(n[0], 3), min(n[1], 2), min(n[2], 2)]
        r = {"kind": kind, "dim": dim, "n": n,
             "phys": [float(np.round(rng.uniform(0.5, 3.0), 3)) for _ in range(dim)],
             "tseed": int(rng.integers(0, 2**31)), "perturb": 0.0, "pseed": 0,
             "affine": None, "rigid": None}
        if kind != "delaunay" and rng.random() < 0.5:
            r["perturb"] = float(np.round(rng.uniform(0.05, 0.2), 3))
            r["pseed"] = int(rng.integers(0, 2**31))
        if rng.random() < 0.2:
            A = np.eye(3)
            A[:dim, :dim] = np.eye(dim) + rng.uniform(-0.3, 0.3, size=(dim, dim))
            r["affine"] = [[float(np.round(v, 4)) for v in row] for row in A]
        try:
            g = gg.build(r)
        except Exception:
            continue
        if gg.valid_cells(g) and g.num_cells >= 6:
            return r
    return {"kind": "cart", "dim": dim, "n": [4, 3, 2][:dim], "phys": [1.0] * dim, "tseed": 0,
            "perturb": 0.0, "pseed": 0, "affine": None, "rigid": None}


def _case(discr, recipe, seed, split_mode, nsplit, partial_mode, npatch, p_dir=0.5):
    return {"discr": discr, "grid": recipe, "seed": int(seed), "split_mode": split_mode,
            "nsplit": int(nsplit), "partial_mode": partial_mode, "npatch": int(npatch),
            "p_dir": float(p_dir)}


def floor(tier):
    out = []
    grids = [
        {"kind": "cart", "dim": 2, "n": [6, 3], "phys": [2.0, 1.0]},
        {"kind": "tri", "dim": 2, "n": [5, 3], "phys": [1.0, 1.0], "perturb": 0.15, "pseed": 1},
        {"kind": "poly", "dim": 2, "n": [5, 3], "phys": [1.0, 1.0], "tseed": 2},
        {"kind": "cart", "dim": 3, "n": [4, 2, 2], "phys": [2.0, 1.0, 1.0]},
        {"kind": "tet", "dim": 3, "n": [3, 2, 1], "phys": [1.0, 1.0, 1.0]},
        {"kind": "cart", "dim": 3, "n": [4, 2, 2], "phys": [1.0, 1.0, 1.0], "perturb": 0.15,
         "pseed": 3},
    ]
    pm = ["nodes", "cells", "faces"]
    sm = ["num_subproblems", "max_memory"]
    i = 0
    for gi, r in enumerate(grids):
        for di, d in enumerate(["mpfa", "mpsa", "biot"]):
            if tier == "quick" and (gi + di) % 2 == 1 and gi >= 3:
                continue        # keep the quick floor small in 3-D
            out.append(_case(d, dict(r), 900 + i, sm[i % 2], 2 + i % 4, pm[i % 3], 1 + i % 3))
            i += 1
    # mixed hexahedron / prism grids: faces with 3 and 4 nodes (Neumann scaling per sub-face)
    prism = {"kind": "prism", "dim": 3, "n": [2, 2, 1], "phys": [1.0, 1.0, 1.0], "tseed": 6}
    out.append(_case("mpfa", dict(prism), 951, "num_subproblems", 3, "nodes", 1, 0.5))
    out.append(_case("mpsa", dict(prism), 954, "num_subproblems", 3, "nodes", 1, 0.5))
    out.append(_case("biot", dict(prism, n=[3, 2, 1]), 953, "max_memory", 4, "cells", 2, 0.5))
    # arbitrary node sets on hexahedral / quadrilateral / simplex grids
    hexa = {"kind": "cart", "dim": 3, "n": [3, 2, 2], "phys": [1.5, 1.0, 1.0]}
    out.append(_case("mpfa", dict(hexa), 961, "num_subproblems", 2, "nodes_random", 1, 0.5))
    out.append(_case("mpsa", dict(hexa), 962, "num_subproblems", 2, "nodes_random", 1, 0.5))
    out.append(_case("mpfa", dict(grids[0]), 963, "num_subproblems", 2, "nodes_random", 1, 0.5))
    if tier == "thorough":
        out.append(_case("biot", dict(hexa), 964, "max_memory", 3, "nodes_random", 1, 0.5))
    # a grid with many (> 512) local systems of equal size: batched / vectorised inverters
    # must agree with the other back-end beyond their first batch
    out.append(_case("mpfa", {"kind": "cart", "dim": 2, "n": [25, 24], "phys": [2.5, 2.4]},
                     971, "num_subproblems", 2, "cells", 2, 0.5))
    return out


def generate(rng, tier, i):
    discr = str(rng.choice(["mpfa", "mpsa", "biot"]))
    dim = 2 if rng.random() < 0.6 else 3
    r = _draw_recipe(rng, dim, big=(tier == "thorough"))
    return _case(discr, r, int(rng.integers(0, 2**31)),
                 str(rng.choice(["num_subproblems", "max_memory"])),
                 int(rng.integers(2, 9)),
                 str(rng.choice(["nodes", "nodes_random", "cells", "faces"])),
                 int(rng.integers(1, 5)),
                 float(rng.choice([0.3, 0.6, 0.9])))


# ------------------------------------------------------------------------------- set-up
def _mech_bc(g, rng, p_dir):
    bf = g.get_all_boundary_faces()
    is_dir = rng.random(bf.size) < p_dir
    if g.dim == 3:
        # Neumann faces must not share a node
        fn = g.face_nodes.tocsc()
        used: set = set()
        want_neu = ~is_dir
        is_dir = np.ones(bf.size, dtype=bool)
        for j in rng.permutation(bf.size):
            if not want_neu[j]:
                continue
            nodes = set(fn.indices[fn.indptr[bf[j]]:fn.indptr[bf[j] + 1]].tolist())
            if not (nodes & used):
                is_dir[j] = False
                used |= nodes
    if not is_dir.any():
        is_dir[int(rng.integers(0, bf.size))] = True
    return pp.BoundaryConditionVectorial(g, bf, np.where(is_dir, "dir", "neu")), is_dir


def _setup(case, g):
    rng = np.random.default_rng(case["seed"])
    nc, dim = g.num_cells, g.dim
    name = case["discr"]
    if name == "mpfa":
        kw = "flow"
        discr = pp.Mpfa(kw)
        k = fs.tensor_from_cellwise(fs.heterogeneous_spd(int(rng.integers(0, 2**31)), dim, nc,
                                                         20.0))
        bf = g.get_all_boundary_faces()
        is_dir = rng.random(bf.size) < case["p_dir"]
        if not is_dir.any():
            is_dir[int(rng.integers(0, bf.size))] = True
        base = {"second_order_tensor": k, "bc": fs.make_bc(g, bf, is_dir)}
        inv_key = "mpfa_inverter"
        peak = discr._estimate_peak_memory(g)
    else:
        kw = "mechanics"
        discr = pp.Mpsa(kw) if name == "mpsa" else pp.Biot(kw)
        C = pp.FourthOrderTensor(rng.uniform(0.5, 2.0, nc), rng.uniform(0.5, 2.0, nc))
        bc, is_dir = _mech_bc(g, rng, case["p_dir"])
        base = {"fourth_order_tensor": C, "bc": bc}
        if name == "biot":
            alpha = fs.tensor_from_cellwise(
                fs.heterogeneous_spd(int(rng.integers(0, 2**31)), dim, nc, 5.0))
            base["scalar_vector_mappings"] = {"scalar_alpha": float(rng.uniform(0.3, 1.0)),
                                              "tensor_alpha": alpha}
        inv_key = "inverter"
        peak = discr._estimate_peak_memory_mpsa(g)
    return discr, kw, base, inv_key, int(peak), int(np.sum(is_dir)), int(np.sum(~is_dir))


def _flat(data, kw):
    out = {}
    for key, val in data[pp.DISCRETIZATION_MATRICES][kw].items():
        if isinstance(val, dict):
            for sub, m in val.items():
                out[f"{key}/{sub}"] = sps.csr_matrix(m)
        else:
            out[key] = sps.csr_matrix(val)
    return out


def _run(discr, g, kw, params):
    data = pp.initialize_data({}, kw, dict(params))
    _RECORD.clear()
    discr.discretize(g, data)
    rec = [dict(r) for r in _RECORD]
    return _flat(data, kw), data[pp.PARAMETERS][kw], rec


def _absmax(m):
    return float(np.max(np.abs(m.data))) if m.nnz else 0.0


# matrices whose columns are boundary values (they are built from the boundary right-hand side)
BOUNDARY_DATA_MATRICES = ("bound_stress", "bound_displacement_face",
                          "boundary_displacement_divergence")


def _mechanism(name, what, base_key, known_pred):
    """Stable mechanism key.  ``known_pred``: the case satisfies the predicate of the
    reproduced defect 'Mpsa._create_bound_rhs scales Neumann sub-face data with the node
    count of the wrong face' (mechanics discretization, faces with different numbers of
    nodes, at least one Neumann face); it only shows in matrices acting on boundary data."""
    if known_pred and base_key in BOUNDARY_DATA_MATRICES and what in ("split", "partial"):
        return "mechanics-neumann-rhs:mixed-face-node-counts"
    return f"{name}-{what}-differs:{base_key}"


def _compare(mon, what, name, ref, got, rows_of=None, counter=None, known_pred=False):
    """Compare all matrices; rows_of(key, matrix) -> row indices or None (all rows)."""
    ok = True
    if set(ref) != set(got):
        mon.violation(f"{name}-{what}-matrix-keys-differ",
                      {"only_ref": sorted(set(ref) - set(got)),
                       "only_got": sorted(set(got) - set(ref))})
        return False
    for key in sorted(ref):
        a, b = ref[key], got[key]
        base_key = key.split("/")[0]
        if a.shape != b.shape:
            mon.violation(f"{name}-{what}-differs:{base_key}",
                          {"what": "shape", "ref": a.shape, "got": b.shape})
            ok = False
            continue
        if rows_of is not None:
            rows = rows_of(key, a)
            if rows is None:
                continue
            a, b = a[rows], b[rows]
            full_scale = _absmax(ref[key])
        else:
            full_scale = _absmax(a)
        scale = max(full_scale, _absmax(b), 1e-300)
        d = (a - b).tocsr()
        res = _absmax(d) / scale
        mon.measure(f"residual_{what}", res)
        if counter:
            mon.count(counter)
        if not res <= TOL:
            dc = d.tocoo()
            j = int(np.argmax(np.abs(dc.data)))
            mon.violation(_mechanism(name, what, base_key, known_pred),
                          {"matrix": key, "what": what, "discr": name, "rel": res,
                           "row": int(dc.row[j]), "col": int(dc.col[j]), "scale": scale})
            ok = False
    return ok


# ------------------------------------------------------------------------------- check
def _patch(g, rng, npatch):
    """Random face-connected cell patch."""
    nc = g.num_cells
    cells = [int(rng.integers(0, nc))]
    c2c = (g.cell_faces.T @ g.cell_faces).tocsr()
    while len(cells) < min(npatch, nc):
        c = cells[int(rng.integers(0, len(cells)))]
        nb = [int(x) for x in c2c.indices[c2c.indptr[c]:c2c.indptr[c + 1]] if x not in cells]
        if not nb:
            break
        cells.append(nb[int(rng.integers(0, len(nb)))])
    return np.sort(np.array(cells, dtype=int))


def check(case, mon):
    _install_wrapper()
    r = case["grid"]
    g = gg.build(r)
    nc, nf, nd = g.num_cells, g.num_faces, g.dim
    name = case["discr"]
    discr, kw, base, inv_key, peak, n_dir, n_neu = _setup(case, g)
    mon.klass(name)
    mon.klass(f"{r['kind']}{nd}d" + ("+perturb" if r.get("perturb") else "")
              + ("+affine" if r.get("affine") is not None else ""))
    mon.count("discr_" + name)
    mon.count("faces_dirichlet", n_dir)
    mon.count("faces_neumann", n_neu)
    nodes_per_face = np.diff(g.face_nodes.tocsc().indptr)
    known_pred = (name in ("mpsa", "biot") and np.unique(nodes_per_face).size > 1
                  and n_neu > 0)
    if known_pred:
        mon.count("cases_mechanics_mixed_face_sizes_with_neumann")
    if nf in (nc,) or nf * nd == nc:
        mon.inconclusive("row kinds ambiguous by shape")
        return

    # (a) one piece, numba inverter
    ref, _, rec = _run(discr, g, kw, dict(base, **{inv_key: "numba"}))
    if not (len(rec) == 1 and rec[0]["yielded"] == 1):
        mon.violation("one-piece-run-was-split", {"record": [
            {k: v for k, v in x.items() if k != "faces"} for x in rec]})
    mon.count("matrices_per_discretization", len(ref))

    # (b) forced split
    n = int(case["nsplit"])
    if case["split_mode"] == "num_subproblems":
        part = {"num_subproblems": n}
        mon.count("split_by_num_subproblems")
    else:
        part = {"max_memory": max(1, int(peak // n))}
        mon.count("split_by_max_memory")
    mon.klass("split:" + case["split_mode"])
    got, _, rec = _run(discr, g, kw, dict(base, partition_arguments=part,
                                          **{inv_key: "numba"}))
    yielded = sum(x["yielded"] for x in rec)
    proper = sum(x["proper"] for x in rec)
    mon.count("subgrids_yielded", yielded)
    mon.count("proper_subgrids", proper)
    mon.measure("subgrids_per_split_run", yielded)
    is_split = yielded >= 2 and proper >= 1
    if is_split:
        mon.count("split_runs_proper")
        reps = np.bincount(np.concatenate([f for x in rec for f in x["faces"]]), minlength=nf)
        mon.count("faces_discretized_more_than_once", int(np.sum(reps > 1)))
        if np.any(reps == 0):
            mon.violation("split-leaves-faces-undiscretized", {"n": int(np.sum(reps == 0))})
    else:
        mon.excluded("split request produced a single / no proper sub-grid: not counted as "
                     "a split case")
    mon.nontrivial(is_split)
    _compare(mon, "split", name, ref, got, counter="matrices_compared_split",
             known_pred=known_pred)

    # (d) python inverter
    got, _, _ = _run(discr, g, kw, dict(base, **{inv_key: "python"}))
    _compare(mon, "inverter", name, ref, got, counter="matrices_compared_inverter")

    # (c) partial discretization
    rng = np.random.default_rng(case["seed"] + 1)
    mode = case["partial_mode"]
    patch = _patch(g, rng, case["npatch"])
    extra = {}
    if mode == "nodes_random":
        # an arbitrary node set (not the closure of a cell patch): faces with some but not
        # all of their nodes selected must stay inactive
        frac = float(rng.uniform(0.25, 0.7))
        sel = np.flatnonzero(rng.random(g.num_nodes) < frac)
        if sel.size == 0:
            sel = np.array([int(rng.integers(0, g.num_nodes))])
        extra["specified_nodes"] = sel
        target_cells = None
        fn = g.face_nodes.tocsc()
        nsel = np.asarray(fn[sel].sum(axis=0)).ravel()
        ntot = np.diff(fn.indptr)
        mon.count("faces_with_some_but_not_all_nodes_selected",
                  int(np.sum((nsel > 0) & (nsel < ntot))))
        mon.count("faces_with_all_but_one_node_selected", int(np.sum(nsel == ntot - 1)))
    elif mode == "nodes":
        ind = np.zeros(nc)
        ind[patch] = 1
        extra["specified_nodes"] = np.flatnonzero(g.cell_nodes() @ ind > 0)
        target_cells = patch
    elif mode == "cells":
        extra["specified_cells"] = patch
        target_cells = patch
    else:
        faces = np.sort(rng.choice(nf, size=min(nf, 1 + int(rng.integers(0, 3))),
                                   replace=False))
        extra["specified_faces"] = faces
        target_cells = np.unique(g.cell_faces.tocsr()[faces].indices)
    mon.klass("partial:" + mode)
    mon.count("partial_" + mode)
    got, params, _ = _run(discr, g, kw, dict(base, **extra, **{inv_key: "numba"}))
    active_faces = np.asarray(params.get("active_faces", np.arange(nf)), dtype=int)
    mon.count("partial_runs")
    mon.measure("partial_active_face_fraction", active_faces.size / nf)
    if active_faces.size == 0:
        mon.excluded("partial update with empty active face set")
        return
    face_rows = active_faces
    face_rows_nd = pp.array_operations.expand_indices_nd(active_faces, nd)

    def rows_of(key, m):
        if m.shape[0] == nf:
            mon.count("partial_active_face_rows", face_rows.size)
            return face_rows
        if m.shape[0] == nf * nd:
            mon.count("partial_active_face_rows", face_rows_nd.size)
            return face_rows_nd
        if m.shape[0] == nc:
            if target_cells is None:
                mon.excluded("cell-row matrices after an update on an arbitrary node set "
                             "(no cell is named as target)")
                return np.zeros(0, dtype=int)
            mon.count("partial_cell_rows", target_cells.size)
            return target_cells
        mon.inconclusive(f"unknown row kind of matrix {key}: {m.shape}")
        return None

    _compare(mon, "partial", name, ref, got, rows_of=rows_of,
             counter="matrices_compared_partial", known_pred=known_pred)
