"""C24 Mixed-dimensional grid container stays consistent under any history.

Monitor: a history of add_subdomains / add_interface / remove_subdomain /
replace_subdomains_and_interfaces is replayed on a real ``pp.MixedDimensionalGrid``
(optionally starting from a meshed fractured md-grid, whose construction calls are
*recorded* by wrappers on the class).  A plain-dict reference model
(``pvm.ref.c24_model.RefMdg``) is fed the same operations.  After every step the full
public query surface of the container is compared with the model (invariant monitor at
a quiescent point).  An operation that raises although the model says it is legal is a
violation; a documented rejection must leave the container unchanged.
"""
from __future__ import annotations

import copy

import numpy as np
import scipy.sparse as sps

import porepy as pp
from porepy.grids.mortar_grid import MortarSides

from pvm.gen import mdg as gm
from pvm.ref.c24_model import RefMdg

PROP = "C24"
N = {"quick": 120, "thorough": 10000}
WORKERS = {"quick": 4, "thorough": 16}
TIMEOUT = {"quick": 300, "thorough": 1800}
CASE_TIMEOUT = 60.0
RULE = ("histories of 3-15 operations (add one/several grids of dim 0-3, add with a "
        "duplicate [documented rejection], add interface of codim 0/1/2 in either pair "
        "order with 1 or 2 sides, add interface of codim 3 / an existing interface "
        "[documented rejections], remove subdomain (biased to 0-d / top dimension), "
        "replace subdomain (fresh grid / copy / refined 1-d / finer host), replace 0-d "
        "subdomain, replace interface side grids) on an empty container or on a meshed "
        "fractured md-grid (2-D Cartesian+simplex, 3-D Cartesian); objects are picked by "
        "selectors resolved against the reference model; non-trivial = at least 3 executed "
        "operations of which at least one is a removal or replacement; distinct = case hash")
REACH = [
    ("grids/md_grid.py", "MixedDimensionalGrid.argsort_grids"),
    ("grids/md_grid.py", "MixedDimensionalGrid.add_subdomains"),
    ("grids/md_grid.py", "MixedDimensionalGrid.add_interface"),
    ("grids/md_grid.py", "MixedDimensionalGrid.remove_subdomain"),
    ("grids/md_grid.py", "MixedDimensionalGrid.replace_subdomains_and_interfaces"),
    ("grids/md_grid.py", "MixedDimensionalGrid.subdomain_pair_to_interface"),
    ("grids/md_grid.py", "MixedDimensionalGrid.neighboring_subdomains"),
]
REACH_LINES = [
    ("grids/md_grid.py", "intf.update_primary(sd_new, sd_old, tol)"),
    ("grids/md_grid.py", "intf.update_secondary(sd_new, tol)"),
    ("grids/md_grid.py", "intf_old.update_mortar(side_grids, tol)"),
    ("grids/md_grid.py", 'raise ValueError("Grid already defined in MixedDimensionalGrid")'),
    ("grids/md_grid.py", 'raise ValueError("Can only handle subdomain coupling of co-dimension <= 2")'),
]
REQUIRED = {"invariant_evaluations": 50, "op:add": 8, "op:add_intf": 6, "op:remove": 12,
            "op:remove_dim0": 3, "op:replace_sd": 5, "op:replace_intf": 2,
            "op:replace_0d": 2, "op:add_dup": 1, "op:add_intf_bad:codim3": 2,
            "recorded_constructor_calls": 20}
ASSUMPTIONS = [
    "objects are compared by identity; ordering key is (-dim, .id) with .id the public id "
    "assigned on instantiation",
    "not generated: the same new grid twice in one add_subdomains list, two interfaces on "
    "one subdomain pair, an interface from a subdomain to itself, replacement by a grid that "
    "is already present or of another dimension",
    "replacement of a subdomain with meshed interfaces is generated only where the mortar "
    "update is implemented and documented to work (1-d grids refined once; 2-d host of a 2-D "
    "network without touching fractures; no 3-d host); a ValueError raised by the geometric "
    "matching itself is counted as an exclusion and ends the history",
    "boundaries() on a container that holds only 0-d subdomains raises ValueError by design "
    "(counted as exclusion)",
]
LEVEL_TEXT = ("Every generated add/remove/replace history is replayed on the real container "
              "and, after each step, all listings, pair maps, incidence queries, boundary-grid "
              "and data-dictionary associations are compared with a dict reference model.")
TECHNIQUE = "runtime monitoring: dict reference model + invariant after every operation"

M_REMOVE_0D = "remove_subdomain:0d-subdomain-raises-KeyError"
M_REPLACE_0D = "replace_subdomains_and_interfaces:0d-subdomain-raises-KeyError"
M_CODIM3 = "add_interface:rejected-codim3-interface-left-in-container"


# ----------------------------------------------------------------------------- grids
def _mk(spec):
    d, n = int(spec["dim"]), int(spec.get("n", 1))
    if d == 0:
        g = pp.PointGrid(np.array([0.25 * n, 0.0, 0.0]))
    elif d == 1:
        g = pp.CartGrid(np.array([n]))
    elif d == 2:
        if spec.get("tri"):
            g = pp.StructuredTriangleGrid(np.array([n, 1]))
        else:
            g = pp.CartGrid(np.array([n, 1]))
    else:
        g = pp.CartGrid(np.array([n, 1, 1]))
    g.compute_geometry()
    return g


def _mk_mortar(dim, codim, sides):
    keys = [MortarSides.LEFT_SIDE, MortarSides.RIGHT_SIDE][:sides]
    sg = {k: _mk({"dim": dim, "n": 1}) for k in keys}
    return pp.MortarGrid(dim, sg, None, codim=codim)


# ------------------------------------------------------------------------ recording
class _Recorder:
    """Record successful add_subdomains / add_interface / remove / replace calls made on
    any MixedDimensionalGrid while active (class-level wrappers)."""
    NAMES = ("add_subdomains", "add_interface", "remove_subdomain",
             "replace_subdomains_and_interfaces")

    def __init__(self):
        self.log = []
        self._orig = {}

    def __enter__(self):
        cls = pp.MixedDimensionalGrid
        for name in self.NAMES:
            orig = getattr(cls, name)
            self._orig[name] = orig

            setattr(cls, name, self._wrap(orig, name))
        return self

    def _wrap(self, orig, name):
        log = self.log

        def wrapper(obj, *a, **k):
            out = orig(obj, *a, **k)
            log.append((name, obj, a, k))
            return out
        return wrapper

    def __exit__(self, *exc):
        cls = pp.MixedDimensionalGrid
        for name, orig in self._orig.items():
            setattr(cls, name, orig)
        return False


# ------------------------------------------------------------------------ invariant
def _same(a, b):
    return len(a) == len(b) and all(x is y for x, y in zip(a, b))


def _ids(lst):
    return [(int(g.dim), int(g.id)) for g in lst]


def _invariant(mdg, M, mon):
    """Compare every public query with the model.  Returns a list of (key, detail)."""
    bad = []
    try:
        _invariant_body(mdg, M, mon, bad)
    except Exception as e:  # noqa: BLE001 - a query of the container raised
        import traceback
        fr = traceback.extract_tb(e.__traceback__)[-1]
        bad.append((f"query-raises:{type(e).__name__}@{fr.name}",
                    traceback.format_exc()[-600:]))
    return bad


def _invariant_body(mdg, M, mon, bad):
    mon.count("invariant_evaluations")

    def fail(key, detail):
        bad.append((key, detail))

    # counts / membership
    if mdg.num_subdomains() != len(M.sds) or mdg.num_interfaces() != len(M.intfs):
        fail("counts:num-subdomains-or-interfaces",
             {"got": [mdg.num_subdomains(), mdg.num_interfaces()],
              "want": [len(M.sds), len(M.intfs)]})
    for g in M.sds:
        if g not in mdg:
            fail("membership:present-subdomain-not-contained", _ids([g]))
    for i in M.intfs:
        if i not in mdg:
            fail("membership:present-interface-not-contained", _ids([i]))
    for g in M.removed_sds:
        if g in mdg or mdg.subdomain_to_boundary_grid(g) is not None:
            fail("membership:removed-subdomain-still-present", _ids([g]))
    for i in M.removed_intfs:
        if i in mdg:
            fail("membership:removed-interface-still-present", _ids([i]))
    for b in M.removed_bgs:
        if b in mdg:
            fail("membership:removed-boundary-grid-still-present", _ids([b]))

    # listings of subdomains (all filters, with and without data)
    dims = [None, 0, 1, 2, 3]
    for d in dims:
        got = mdg.subdomains(dim=d)
        want = M.subdomains(d)
        mon.count("listing_comparisons")
        if not _same(got, want):
            fail("listing:subdomains-order-or-content",
                 {"dim": d, "got": _ids(got), "want": _ids(want)})
    got = mdg.subdomains(return_data=True)
    if not _same([g for g, _ in got], M.subdomains()):
        fail("listing:subdomains-order-or-content", {"return_data": True})
    else:
        for g, data in got:
            if data is not mdg.subdomain_data(g) or \
                    data.get("c24_uid") != M.sds[g]:
                fail("data:subdomain-dictionary-lost", {"sd": _ids([g]),
                                                        "want_uid": M.sds[g],
                                                        "got_uid": data.get("c24_uid")})

    # listings of interfaces
    for d in [None, 0, 1, 2]:
        for cd in [None, 0, 1, 2]:
            got = mdg.interfaces(dim=d, codim=cd)
            want = M.interfaces(d, cd)
            mon.count("listing_comparisons")
            if not _same(got, want):
                fail("listing:interfaces-order-or-content",
                     {"dim": d, "codim": cd, "got": _ids(got), "want": _ids(want)})
    got = mdg.interfaces(return_data=True)
    if _same([i for i, _ in got], M.interfaces()):
        for i, data in got:
            if data is not mdg.interface_data(i) or data.get("c24_uid") != M.intf_data[i]:
                fail("data:interface-dictionary-lost", {"intf": _ids([i])})
    if len(M.sds) > 0:
        if mdg.dim_max() != max(g.dim for g in M.sds) or \
                mdg.dim_min() != min(g.dim for g in M.sds):
            fail("counts:dim-max-min", {})

    # boundary grids
    for g in M.sds:
        bg = mdg.subdomain_to_boundary_grid(g)
        if g.dim == 0:
            if bg is not None:
                fail("boundary-grid:0d-subdomain-has-boundary-grid", _ids([g]))
        else:
            if bg is None or not isinstance(bg, pp.BoundaryGrid) or bg.parent is not g \
                    or bg not in mdg:
                fail("boundary-grid:not-exactly-one-per-positive-dim-subdomain",
                     {"sd": _ids([g]), "bg": None if bg is None else _ids([bg])})
            elif M.bgs[g] is not None and bg is not M.bgs[g]:
                fail("boundary-grid:changed-without-operation", _ids([g]))
            elif mdg.boundary_grid_data(bg).get("c24_uid") != M.bg_data.get(bg):
                fail("data:boundary-dictionary-lost", _ids([g]))
    if len(M.sds) > 0 and not any(g.dim > 0 for g in M.sds):
        # documented: raises ValueError when no boundary grid exists at all
        try:
            mdg.boundaries()
            fail("listing:boundaries-order-or-content", "expected documented ValueError")
        except ValueError:
            mon.excluded("boundaries() on a container with only 0-d subdomains raises by design")
    else:
        for d in [None, 0, 1, 2]:
            got = mdg.boundaries(dim=d)
            want = M.boundaries(d)
            mon.count("listing_comparisons")
            if not _same(got, want):
                fail("listing:boundaries-order-or-content",
                     {"dim": d, "got": _ids(got), "want": _ids(want)})

    # pair maps
    for i in M.intfs:
        want = M.pair(i)
        mon.count("pair_map_comparisons")
        try:
            got = mdg.interface_to_subdomain_pair(i)
        except KeyError:
            fail("pair-map:interface-to-subdomain-pair", {"intf": _ids([i]), "raises": "KeyError"})
            continue
        if not _same(list(got), list(want)):
            fail("pair-map:interface-to-subdomain-pair",
                 {"intf": _ids([i]), "got": _ids(got), "want": _ids(want)})
        if want[0].dim < want[1].dim or \
                (want[0].dim == want[1].dim and want[0].id > want[1].id):
            fail("pair-map:reference-model-self-check", {})
        for pr in (want, want[::-1]):
            try:
                j = mdg.subdomain_pair_to_interface(pr)
            except KeyError:
                j = None
            if j is not i:
                fail("pair-map:subdomain-pair-to-interface",
                     {"intf": _ids([i]), "got": None if j is None else _ids([j])})
    # an absent pair must raise KeyError
    sds = M.subdomains()
    done = 0
    for a in sds:
        for b in sds:
            if a is b or done >= 3:
                continue
            if any((p[0] is a and p[1] is b) or (p[0] is b and p[1] is a)
                   for p in M.intfs.values()):
                continue
            done += 1
            try:
                j = mdg.subdomain_pair_to_interface((a, b))
                fail("pair-map:absent-pair-returns-interface", _ids([j]))
            except KeyError:
                mon.count("absent_pair_keyerror")

    # incidence
    for g in M.sds:
        mon.count("incidence_comparisons")
        got = mdg.subdomain_to_interfaces(g)
        if not _same(got, M.interfaces_of(g)):
            fail("incidence:subdomain-to-interfaces",
                 {"sd": _ids([g]), "got": _ids(got), "want": _ids(M.interfaces_of(g))})
        for hi, lo in ((False, False), (True, False), (False, True)):
            got = mdg.neighboring_subdomains(g, only_higher=hi, only_lower=lo)
            want = M.neighbours(g, hi, lo)
            if not _same(got, want):
                fail("incidence:neighboring-subdomains",
                     {"sd": _ids([g]), "higher": hi, "lower": lo,
                      "got": _ids(got), "want": _ids(want)})


# ----------------------------------------------------------------------------- run
class _State:
    def __init__(self):
        self.uid = 0
        self.real_intfs = set()       # interfaces that carry meshed projections
        self.once = set()             # subdomains already replaced once (lineage)
        self.base = None
        self.base_isolated = False
        self.executed = 0
        self.mutations = 0

    def next_uid(self):
        self.uid += 1
        return self.uid


def _tag_new(mdg, M, st, grids):
    """Mark the data dictionaries the container created and tell the model."""
    for g in grids:
        uid = st.next_uid()
        data = mdg.subdomain_data(g)
        data["c24_uid"] = uid
        bg = mdg.subdomain_to_boundary_grid(g)
        buid = None
        if bg is not None:
            buid = st.next_uid()
            mdg.boundary_grid_data(bg)["c24_uid"] = buid
        M.observe_sd(g, uid, bg, buid)


def _pick(cands, sel):
    return cands[int(sel) % len(cands)] if cands else None


def _pairs(M):
    sds = M.subdomains()
    out = []
    for a_i, a in enumerate(sds):
        for b in sds[a_i + 1:]:
            cd = abs(a.dim - b.dim)
            if cd > 2:
                continue
            if cd == 0 and a.dim == 0:
                continue
            if any((p[0] is a and p[1] is b) or (p[0] is b and p[1] is a)
                   for p in M.intfs.values()):
                continue
            out.append((a, b))
    return out


def _isolated(recipe):
    fr = recipe["fractures"]
    if recipe["dim"] == 2:
        return all(gm.seg_relation(fr[i], fr[j]) == "none"
                   for i in range(len(fr)) for j in range(i + 1, len(fr)))
    return len(fr) <= 1


def check(case, mon):
    st = _State()
    M = RefMdg()
    base = case.get("base")
    if base is not None:
        with _Recorder() as rec:
            mdg = gm.build(base)
        st.base = base
        st.base_isolated = _isolated(base)
        mon.klass(f"base:{base['dim']}d-{base['mesh']}-{len(base['fractures'])}frac")
        for name, obj, a, k in rec.log:
            if obj is not mdg:
                continue
            mon.count("recorded_constructor_calls")
            if name == "add_subdomains":
                ng = a[0] if a else k["new_subdomains"]
                ng = [ng] if isinstance(ng, pp.Grid) else list(ng)
                M.add_subdomains(ng)
            elif name == "add_interface":
                intf, pair = a[0], a[1]
                M.add_interface(intf, pair, None)
                st.real_intfs.add(intf)
            else:
                mon.inconclusive(f"constructor called {name}: model cannot follow")
                return
        _tag_new(mdg, M, st, list(M.sds))
        for i in M.intfs:
            uid = st.next_uid()
            mdg.interface_data(i)["c24_uid"] = uid
            M.intf_data[i] = uid
    else:
        mdg = pp.MixedDimensionalGrid()
        mon.klass("base:empty")

    bad = _invariant(mdg, M, mon)
    if bad:
        for key, detail in bad[:5]:
            mon.violation(key, {"step": "initial", "detail": detail})
        return

    for step, op in enumerate(case["ops"]):
        kind = op["op"]
        try:
            res = _apply(op, mdg, M, st, mon)
        except _Stop:
            return
        if res is None:
            mon.count(f"skipped:{kind}")
            continue
        ctx = res
        st.executed += 1
        bad = _invariant(mdg, M, mon)
        if bad:
            for key, detail in bad[:5]:
                mech = M_CODIM3 if ctx == "add_intf_bad:codim3" else key
                mon.violation(mech, {"step": step, "op": op, "after": ctx,
                                     "failed": key, "detail": detail})
            return
    mon.count("histories_completed")
    mon.measure("executed_ops_per_history", st.executed)
    mon.nontrivial(st.executed >= 3 and st.mutations >= 1)


class _Stop(Exception):
    pass


def _apply(op, mdg, M, st, mon):
    """Execute one operation on the real container and on the model.  Returns the name
    of the executed operation kind, or None when it was not applicable."""
    kind = op["op"]

    if kind == "add":
        grids = [_mk(s) for s in op["specs"]]
        if op.get("shuffle") and len(grids) > 1:
            # insertion order differs from creation (id) order: the listing must sort by
            # id within a dimension, not by insertion
            perm = np.random.default_rng(int(op["shuffle"])).permutation(len(grids))
            if np.all(perm == np.arange(len(grids))):
                perm = perm[::-1]
            grids = [grids[k] for k in perm]
            mon.count("op:add-in-shuffled-order")
        arg = grids[0] if (op.get("single") and len(grids) == 1) else grids
        mdg.add_subdomains(arg)
        M.add_subdomains(grids)
        _tag_new(mdg, M, st, grids)
        mon.count("op:add")
        mon.count("grids_added", len(grids))
        for g in grids:
            mon.count(f"added_dim{g.dim}")
        return "add"

    if kind == "add_dup":
        old = _pick(M.subdomains(), op["sel"])
        if old is None:
            return None
        new = _mk(op["spec"])
        lst = [new, old] if op.get("new_first", True) else [old, new]
        try:
            mdg.add_subdomains(lst)
        except ValueError:
            mon.count("op:add_dup")
            if new in mdg:
                mon.violation("add_subdomains:rejected-list-partially-added", {"op": op})
                raise _Stop()
            M.removed_sds.append(new)
            return "add_dup"
        mon.violation("add_subdomains:duplicate-accepted", {"op": op})
        raise _Stop()

    if kind == "add_intf":
        pr = _pick(_pairs(M), op["sel"])
        if pr is None:
            return None
        a, b = pr                      # a sorts first: higher dim or lower id
        cd = a.dim - b.dim
        mdim = b.dim if cd > 0 else a.dim - 1
        sides = 1 if int(op.get("sides", 2)) == 1 else 2
        intf = _mk_mortar(mdim, cd, sides)
        fc = sps.csc_matrix((b.num_cells, max(a.num_faces, 1)))
        given = (b, a) if op.get("swap") else (a, b)
        mdg.add_interface(intf, given, fc)
        uid = st.next_uid()
        data = mdg.interface_data(intf)
        if data.get("face_cells") is not fc:
            mon.violation("data:interface-face-cells-not-stored", {"op": op})
        data["c24_uid"] = uid
        M.add_interface(intf, given, uid)
        mon.count("op:add_intf")
        mon.count(f"add_intf_codim{cd}")
        if op.get("swap"):
            mon.count("add_intf_pair_given_low_high")
        return "add_intf"

    if kind == "add_intf_bad":
        if op["kind"] == "codim3":
            hi = M.subdomains(3)
            lo = M.subdomains(0)
            if not hi or not lo:
                return None
            a, b = _pick(hi, op["sel"]), _pick(lo, op["sel"] // 7)
            intf = _mk_mortar(0, 2, 1)
            given = (b, a) if op.get("swap") else (a, b)
            try:
                mdg.add_interface(intf, given, sps.csc_matrix((1, a.num_faces)))
            except ValueError:
                mon.count("op:add_intf_bad:codim3")
                M.removed_intfs.append(intf)
                return "add_intf_bad:codim3"
            mon.violation("add_interface:codim3-accepted", {"op": op})
            raise _Stop()
        else:
            intf = _pick(M.interfaces(), op["sel"])
            if intf is None:
                return None
            try:
                mdg.add_interface(intf, M.pair(intf), sps.csc_matrix((1, 1)))
            except ValueError:
                mon.count("op:add_intf_bad:existing")
                return "add_intf_bad:existing"
            mon.violation("add_interface:existing-interface-accepted", {"op": op})
            raise _Stop()

    if kind == "remove":
        cands = M.subdomains()
        pd = op.get("prefer_dim")
        if pd is not None:
            if pd == "max" and cands:
                pd = cands[0].dim
            pref = [g for g in cands if g.dim == pd]
            cands = pref or cands
        g = _pick(cands, op["sel"])
        if g is None:
            return None
        n_intf = len(M.interfaces_of(g))
        M.remove_subdomain(g)
        st.mutations += 1
        mon.count("op:remove")
        mon.count(f"op:remove_dim{g.dim}")
        mon.count("interfaces_removed_with_subdomain", n_intf)
        try:
            mdg.remove_subdomain(g)
        except KeyError as e:
            if g.dim == 0:
                mon.violation(M_REMOVE_0D, {"op": op, "error": repr(e)[:200]})
            else:
                mon.violation("remove_subdomain:raises-KeyError", {"op": op, "dim": g.dim})
                raise _Stop()
        return f"remove_dim{g.dim}"

    if kind == "replace_0d":
        g = _pick(M.subdomains(0), op["sel"])
        if g is None:
            return None
        new = pp.PointGrid(g.cell_centers[:, 0].copy())
        new.compute_geometry()
        for attr in ("frac_num",):
            if hasattr(g, attr):
                setattr(new, attr, getattr(g, attr))
        M.replace_subdomain(g, new)
        st.mutations += 1
        mon.count("op:replace_0d")
        sd_map = {g: new}
        extra = None
        free = [x for x in M.subdomains() if x.dim > 0 and not M.interfaces_of(x)]
        if free and op["sel"] % 2 == 0:
            # one call replacing the 0-d subdomain AND (listed after it) a positive-
            # dimensional one: every entry of the map must be processed completely
            h = _pick(free, op["sel"] // 2)
            hn = _mk({"dim": h.dim, "n": 2, "tri": None})
            keep = M.replace_subdomain(h, hn)
            st.once.add(hn)
            sd_map[h] = hn
            extra = (hn, keep)
            mon.count("op:replace_0d_together_with_a_positive_dimensional_subdomain")
        try:
            mdg.replace_subdomains_and_interfaces(sd_map=sd_map)
        except KeyError as e:
            mon.violation(M_REPLACE_0D, {"op": op, "error": repr(e)[:200]})
        M.observe_bg(new, mdg.subdomain_to_boundary_grid(new), None)
        if extra is not None:
            M.observe_bg(extra[0], mdg.subdomain_to_boundary_grid(extra[0]), extra[1])
        return "replace_0d"

    if kind == "replace_sd":
        return _replace_sd(op, mdg, M, st, mon)

    if kind == "replace_intf":
        cands = [i for i in M.interfaces() if i in st.real_intfs and i.dim == 1]
        intf = _pick(cands, op["sel"])
        if intf is None:
            return None
        ratio = int(op.get("ratio", 2))
        sides = list(intf.side_grids.items())
        if op.get("one_side") and len(sides) == 2:
            sides = sides[:1]
        new_sg = {}
        for s, g in sides:
            ng = pp.refinement.refine_grid_1d(g, ratio=ratio)
            ng.compute_geometry()
            new_sg[s] = ng
        nc_want = sum(g.num_cells for g in new_sg.values()) + sum(
            g.num_cells for s, g in intf.side_grids.items() if s not in new_sg)
        arg = new_sg
        if op.get("as_mortar") and len(new_sg) == intf.num_sides():
            arg = pp.MortarGrid(intf.dim, new_sg, None, codim=intf.codim)
        try:
            mdg.replace_subdomains_and_interfaces(interface_map={intf: arg})
        except ValueError as e:
            mon.excluded("update_mortar rejected by the geometric matching (documented ValueError)")
            raise _Stop()
        st.mutations += 1
        mon.count("op:replace_intf")
        if intf.num_cells != nc_want:
            mon.violation("replace-interface:mortar-cell-count-not-updated",
                          {"got": int(intf.num_cells), "want": int(nc_want)})
        return "replace_intf"

    raise ValueError(f"unknown op {kind}")


def _replace_sd(op, mdg, M, st, mon):
    how = op.get("how", "auto")
    free = [g for g in M.subdomains() if g.dim > 0 and not M.interfaces_of(g)]
    meshed = [g for g in M.subdomains()
              if g.dim > 0 and M.interfaces_of(g) and g not in st.once
              and all(i in st.real_intfs for i in M.interfaces_of(g))]
    top = st.base["dim"] if st.base else None
    new = None
    label = None
    g = None
    if how in ("refine", "auto"):
        cands = [x for x in meshed if x.dim == 1 and top is not None and top >= 2
                 and hasattr(x, "frac_num")]
        g = _pick(cands, op["sel"])
        if g is not None:
            new = pp.refinement.refine_grid_1d(g, ratio=int(op.get("ratio", 2)))
            new.compute_geometry()
            label = "refine1d"
    if new is None and how in ("copy", "finer", "auto") and top == 2 and st.base_isolated:
        cands = [x for x in meshed if x.dim == 2]
        g = _pick(cands, op["sel"])
        if g is not None:
            if how == "finer" or (how == "auto" and op["sel"] % 2):
                r2 = copy.deepcopy(st.base)
                if r2["mesh"] == "cartesian":
                    r2["n"] = [2 * k for k in r2["n"]]
                else:
                    r2["h"] = r2["h"] / 2
                new = gm.build(r2).subdomains(dim=2)[0]
                label = "host-finer"
            else:
                new = g.copy()
                label = "host-copy"
    if new is None and how in ("fresh", "auto", "copy", "refine", "finer"):
        g = _pick(free, op["sel"])
        if g is not None:
            new = _mk({"dim": g.dim, "n": int(op.get("ratio", 2)), "tri": op.get("tri")})
            label = "fresh"
    if new is None:
        return None
    keep = M.replace_subdomain(g, new)
    st.once.add(new)
    st.mutations += 1
    try:
        mdg.replace_subdomains_and_interfaces(sd_map={g: new})
    except ValueError as e:
        import traceback
        fr = traceback.extract_tb(e.__traceback__)[-1]
        if fr.filename.endswith("match_grids.py") or fr.name == "_check_mappings":
            mon.excluded("update_primary/secondary rejected by the geometric matching "
                         "(documented ValueError)")
            raise _Stop()
        raise
    mon.count("op:replace_sd")
    mon.count(f"replace_sd:{label}")
    bg = mdg.subdomain_to_boundary_grid(new)
    M.observe_bg(new, bg, keep)
    return f"replace_sd:{label}"


# ------------------------------------------------------------------------ generators
def _spec(rng, dim=None):
    d = int(rng.integers(0, 4)) if dim is None else dim
    s = {"dim": d, "n": int(rng.integers(1, 4))}
    if d == 2 and rng.random() < 0.3:
        s["tri"] = True
    return s


def _rand_op(rng, with_base):
    kinds = ["add", "add_dup", "add_intf", "add_intf_bad", "remove", "replace_sd",
             "replace_intf", "replace_0d"]
    if with_base:
        p = [0.14, 0.04, 0.14, 0.05, 0.22, 0.20, 0.11, 0.10]
    else:
        p = [0.22, 0.05, 0.25, 0.07, 0.22, 0.12, 0.0, 0.07]
    k = str(rng.choice(kinds, p=np.array(p) / np.sum(p)))
    sel = int(rng.integers(0, 10 ** 6))
    if k == "add":
        n = int(rng.integers(1, 4))
        return {"op": "add", "shuffle": int(rng.integers(1, 2**31)) if rng.random() < 0.5 else 0,
                "specs": [_spec(rng) for _ in range(n)],
                "single": bool(n == 1 and rng.random() < 0.5)}
    if k == "add_dup":
        return {"op": "add_dup", "sel": sel, "spec": _spec(rng),
                "new_first": bool(rng.random() < 0.5)}
    if k == "add_intf":
        return {"op": "add_intf", "sel": sel, "swap": bool(rng.random() < 0.5),
                "sides": int(rng.integers(1, 3))}
    if k == "add_intf_bad":
        return {"op": "add_intf_bad", "sel": sel,
                "kind": "codim3" if rng.random() < 0.6 else "existing",
                "swap": bool(rng.random() < 0.5)}
    if k == "remove":
        u = rng.random()
        pd = 0 if u < 0.3 else ("max" if u < 0.45 else None)
        return {"op": "remove", "sel": sel, "prefer_dim": pd}
    if k == "replace_sd":
        return {"op": "replace_sd", "sel": sel,
                "how": str(rng.choice(["auto", "refine", "copy", "finer", "fresh"])),
                "ratio": int(rng.integers(2, 5)), "tri": bool(rng.random() < 0.3)}
    if k == "replace_intf":
        return {"op": "replace_intf", "sel": sel, "ratio": int(rng.integers(2, 5)),
                "as_mortar": bool(rng.random() < 0.4), "one_side": bool(rng.random() < 0.25)}
    return {"op": "replace_0d", "sel": sel}


def generate(rng, tier, i):
    with_base = rng.random() < 0.4
    base = None
    ops = []
    if with_base:
        if rng.random() < 0.15:
            base = gm.random_3d(rng, "cartesian", max_fracs=3)
        else:
            base = gm.random_2d(rng, max_fracs=3)
    else:
        n = int(rng.integers(2, 6))
        specs = [_spec(rng) for _ in range(n)]
        if rng.random() < 0.5:               # make codim-3 pairs and 0-d removals likely
            specs += [{"dim": 3, "n": 1}, {"dim": 0, "n": int(rng.integers(1, 4))}]
        ops.append({"op": "add", "specs": specs, "single": False,
                    "shuffle": int(rng.integers(1, 2**31)) if rng.random() < 0.5 else 0})
    nops = int(rng.integers(3, 16))
    while len(ops) < nops:
        ops.append(_rand_op(rng, with_base))
    return {"base": base, "ops": ops}


def floor(tier):
    F2, F3 = gm.FLOOR_2D, gm.FLOOR_3D
    s = lambda d, n=1: {"dim": d, "n": n}
    out = [
        # full hierarchy by hand, interfaces of every codimension, removal in the middle
        {"base": None, "ops": [
            {"op": "add", "specs": [s(3), s(2), s(2, 2), s(1), s(1, 3), s(0), s(0, 2)],
             "single": False},
            {"op": "add_intf", "sel": 0, "swap": False, "sides": 2},
            {"op": "add_intf", "sel": 0, "swap": True, "sides": 1},
            {"op": "add_intf", "sel": 3, "swap": True, "sides": 2},
            {"op": "add_intf", "sel": 5, "swap": False, "sides": 2},
            {"op": "add_intf", "sel": 9, "swap": True, "sides": 1},
            {"op": "add_intf_bad", "sel": 0, "kind": "existing"},
            {"op": "add_dup", "sel": 2, "spec": s(2), "new_first": True},
            {"op": "remove", "sel": 1, "prefer_dim": 2},
            {"op": "add", "specs": [s(2, 3)], "single": True},
            {"op": "add_intf", "sel": 1, "swap": False, "sides": 2},
            {"op": "replace_sd", "sel": 0, "how": "fresh", "ratio": 2},
            {"op": "remove", "sel": 0, "prefer_dim": "max"},
            {"op": "remove", "sel": 0, "prefer_dim": 1},
        ]},
        # grids inserted in an order different from their creation (id) order
        {"base": None, "ops": [
            {"op": "add", "specs": [s(2), s(2, 2), s(2, 3), s(1), s(1, 2), s(0)],
             "single": False, "shuffle": 7},
            {"op": "add_intf", "sel": 0, "swap": False, "sides": 2},
            {"op": "add", "specs": [s(2, 2), s(2), s(1)], "single": False, "shuffle": 3},
            {"op": "remove", "sel": 1, "prefer_dim": 2},
        ]},
        # documented rejection of a codimension-3 coupling must not change the container
        {"base": None, "ops": [
            {"op": "add", "specs": [s(3), s(0)], "single": False},
            {"op": "add_intf_bad", "sel": 0, "kind": "codim3", "swap": False},
            {"op": "remove", "sel": 0, "prefer_dim": 3},
        ]},
        {"base": None, "ops": [
            {"op": "add", "specs": [s(3), s(1), s(0)], "single": False},
            {"op": "add_intf", "sel": 0, "swap": True, "sides": 2},
            {"op": "add_intf_bad", "sel": 0, "kind": "codim3", "swap": True},
        ]},
        # only 0-d subdomains; emptying the container and refilling it
        {"base": None, "ops": [
            {"op": "add", "specs": [s(0), s(0, 2)], "single": False},
            {"op": "remove", "sel": 0, "prefer_dim": 0},
            {"op": "remove", "sel": 0, "prefer_dim": 0},
            {"op": "add", "specs": [s(1)], "single": True},
            {"op": "remove", "sel": 0, "prefer_dim": None},
            {"op": "add", "specs": [s(2), s(1)], "single": False},
            {"op": "add_intf", "sel": 0, "swap": False, "sides": 2},
        ]},
        # X intersection: remove / replace the 0-d intersection grid
        {"base": F2[2], "ops": [
            {"op": "remove", "sel": 0, "prefer_dim": 0},
            {"op": "remove", "sel": 0, "prefer_dim": 1},
            {"op": "add", "specs": [s(0)], "single": True},
        ]},
        {"base": F2[8], "ops": [
            {"op": "replace_0d", "sel": 0},
            {"op": "replace_sd", "sel": 0, "how": "refine", "ratio": 2},
            {"op": "replace_sd", "sel": 1, "how": "refine", "ratio": 3},
            {"op": "replace_intf", "sel": 0, "ratio": 2, "as_mortar": False},
            {"op": "remove", "sel": 0, "prefer_dim": "max"},
        ]},
        # single fracture: refine fracture, finer host, refined mortar, then removals
        {"base": F2[1], "ops": [
            {"op": "replace_sd", "sel": 0, "how": "refine", "ratio": 2},
            {"op": "replace_sd", "sel": 1, "how": "finer", "ratio": 2},
            {"op": "replace_intf", "sel": 0, "ratio": 3, "as_mortar": True},
            {"op": "add", "specs": [s(2), s(0)], "single": False},
            {"op": "remove", "sel": 0, "prefer_dim": 1},
        ]},
        {"base": F2[7], "ops": [
            {"op": "replace_sd", "sel": 0, "how": "copy", "ratio": 2},
            {"op": "replace_intf", "sel": 0, "ratio": 2, "as_mortar": False, "one_side": True},
            {"op": "replace_sd", "sel": 0, "how": "refine", "ratio": 4},
            {"op": "remove", "sel": 0, "prefer_dim": "max"},
        ]},
        # T and L intersections (one-sided 0-d interfaces)
        {"base": F2[3], "ops": [
            {"op": "replace_sd", "sel": 1, "how": "refine", "ratio": 2},
            {"op": "remove", "sel": 0, "prefer_dim": 0},
        ]},
        {"base": F2[4], "ops": [
            {"op": "remove", "sel": 1, "prefer_dim": 1},
            {"op": "replace_0d", "sel": 0},
            {"op": "remove", "sel": 0, "prefer_dim": 0},
        ]},
        # 3-D: three fractures, six intersection lines, one point
        {"base": F3[2], "ops": [
            {"op": "remove", "sel": 1, "prefer_dim": 2},
            {"op": "remove", "sel": 0, "prefer_dim": 0},
            {"op": "replace_sd", "sel": 0, "how": "refine", "ratio": 2},
            {"op": "add", "specs": [s(3)], "single": True},
            {"op": "add_intf", "sel": 0, "swap": True, "sides": 1},
            {"op": "remove", "sel": 0, "prefer_dim": 3},
        ]},
    ]
    return [copy.deepcopy(c) for c in out]


def warmup():
    """Trigger numba compilation / gmsh start-up before reach counting; a concurrent
    first compilation in a fresh tree can fail while saving the numba cache - retry."""
    for _ in range(3):
        try:
            gm.build(gm.FLOOR_2D[7])
            gm.build(gm.FLOOR_2D[2])
            return
        except Exception:  # noqa: BLE001 - the cases themselves report failures
            continue
