"""C33 Tessellation overlaps partition cell measures.

Invariant monitor: the overlap lists returned by ``intersections.line_tessellation /
triangulations / surface_tessellations`` and the matrices returned by
``match_grids.match_1d / match_2d`` for two generated tessellations of one segment /
convex polygon are evaluated against: overlaps >= 0, per-cell sums equal the cell measure
(both tessellations), 'averaged' rows sum to one, 'integrated' columns sum to one.
"""
from __future__ import annotations

import numpy as np

from pvm.gen import grids as gg

PROP = "C33"
N = {"quick": 500, "thorough": 24000}
WORKERS = {"quick": 4, "thorough": 16}
TIMEOUT = {"quick": 600, "thorough": 3000}
RULE = ("1-D: two node sets (2-12 nodes, min spacing 0.02 of the length, shared end points, "
        "some coincident interior nodes, segments listed in random order and orientation) on a "
        "common segment with random (all components >= 0.05) / axis-aligned direction, random "
        "origin and length 1..1e2 (cases inside the absolute tolerance band of segments_3d, "
        "e.g. nearly axis-aligned directions, are excluded and counted); 2-D: two Delaunay "
        "triangulations of one convex lattice polygon with shared hull vertices, either "
        "(generic) with independent random interior points, mapped by a random similarity and "
        "for match_2d embedded in a random plane, or (lattice) with random subsets of lattice "
        "points incl. shared nodes and partially coincident edges, mapped only by exactly "
        "representable maps (dyadic scaling, integer shifts, signed axis permutations); "
        "surface_tessellations additionally with the Cartesian cells of a lattice rectangle "
        "(three sets only in one exact floor case); non-trivial = both tessellations have >= 2 cells and differ; "
        "distinct = case hash")
REACH = [
    ("geometry/intersections.py", "line_tessellation"),
    ("geometry/intersections.py", "triangulations"),
    ("geometry/intersections.py", "surface_tessellations"),
    ("grids/match_grids.py", "match_1d"),
    ("grids/match_grids.py", "match_2d"),
]
REACH_LINES = [
    ("geometry/intersections.py", "for t in Delaunay(ext_poly).simplices:"),
    ("grids/match_grids.py", "weights /= new_g.cell_volumes[new_g_ind]"),
    ("grids/match_grids.py", "weights /= old_g.cell_volumes[old_g_ind]"),
]
REQUIRED = {
    "line_tessellation_calls": 20, "line_cells_summed": 100, "match_1d_calls": 30,
    "triangulations_calls": 10, "triangle_cells_summed": 100, "match_2d_calls": 15,
    "surface_tessellations_calls": 10, "surface_cells_summed": 50,
    "matrix_rows_checked": 100, "matrix_columns_checked": 100,
}
ASSUMPTIONS = [
    "both tessellations cover exactly the same segment / convex polygon (checked exactly on "
    "the lattice data before mapping)",
    "neighbouring nodes are at least 0.02 of the domain size apart; segments_3d compares "
    "increments and increment ratios with an absolute tolerance 1e-8, inputs within a factor "
    "100 of that band are excluded",
    "match_*(scaling=None): tol = 1e-6 of the smallest cell measure, overlaps are 0 or much larger",
]
LEVEL_TEXT = ("Non-negativity and the per-cell sum of reported overlaps (both tessellations) and "
              "row / column sums of the matching matrices held within 1e-9 relative (1e-7 for "
              "surface_tessellations) on all "
              "explored pairs of tessellations; exploration only.")
TECHNIQUE = "invariant monitor on overlap lists and matching matrices"
TOL = 1e-9
TOL_SURF = 1e-7     # repeated shapely overlays: observed floor 5e-11 (snap rounding), see evidence


# ------------------------------------------------------------------------- generators
def _direction(rng):
    cls = str(rng.choice(["random", "axis", "near_axis", "in_plane"], p=[0.62, 0.23, 0.05, 0.1]))
    if cls == "in_plane":
        # a line inside a coordinate plane x = const / y = const / z = const
        while True:
            v = rng.normal(size=3)
            v[int(rng.integers(0, 3))] = 0.0
            v = v / np.linalg.norm(v)
            if np.sum(np.abs(v) >= 0.05) == 2:
                break
    elif cls == "random":
        while True:
            v = rng.normal(size=3)
            v = v / np.linalg.norm(v)
            if np.all(np.abs(v) >= 0.05):
                break
    else:
        v = np.zeros(3)
        v[int(rng.integers(0, 3))] = rng.choice([-1.0, 1.0])
        if cls == "near_axis":      # inside the tolerance band of segments_3d: excluded
            v = v + float(rng.choice([1e-7, 1e-3])) * rng.normal(size=3)
    v = v / np.linalg.norm(v)
    return [float(x) for x in v], cls


def _nodes_1d(rng, n, shared=None):
    """Sorted parameters in [0, 1] with min spacing 0.02, endpoints included."""
    for _ in range(100):
        x = list(rng.uniform(0.02, 0.98, size=n - 2))
        if shared is not None and len(shared) and n > 2:
            for k in range(min(len(x), int(rng.integers(0, 3)))):
                x[k] = float(shared[int(rng.integers(0, len(shared)))])
        x = np.unique(np.round(np.array([0.0, 1.0] + x), 6))
        if np.all(np.diff(x) >= 0.02):
            return [float(v) for v in x]
    return [0.0, 1.0]


def _case_line(rng, kind):
    d, cls = _direction(rng)
    x1 = _nodes_1d(rng, int(rng.integers(2, 13)))
    x2 = _nodes_1d(rng, int(rng.integers(2, 13)), shared=x1[1:-1])
    if rng.random() < 0.1:
        x2 = list(x1)
    return {"kind": kind, "cls": cls, "d": d, "length": float(10.0 ** rng.uniform(0, 2)),
            "origin": [float(v) for v in rng.uniform(-1, 1, size=3)],
            "x1": x1, "x2": x2, "seed": int(rng.integers(0, 2 ** 31))}


def _hull(points):
    pts = sorted(set(points))

    def cross(o, a, b):
        return (a[0] - o[0]) * (b[1] - o[1]) - (a[1] - o[1]) * (b[0] - o[0])

    def half(seq):
        h = []
        for p in seq:
            while len(h) >= 2 and cross(h[-2], h[-1], p) <= 0:
                h.pop()
            h.append(p)
        return h
    lo = half(pts)
    up = half(reversed(pts))
    return lo[:-1] + up[:-1]


def _area2(poly):
    n = len(poly)
    return sum(poly[i][0] * poly[(i + 1) % n][1] - poly[i][1] * poly[(i + 1) % n][0]
               for i in range(n))


def _inside_or_on(poly, p):
    n = len(poly)
    return all((poly[(i + 1) % n][0] - poly[i][0]) * (p[1] - poly[i][1])
               - (poly[(i + 1) % n][1] - poly[i][1]) * (p[0] - poly[i][0]) >= 0 for i in range(n))


def _triangulate(rng, hull, cand, k):
    """Delaunay of hull vertices + k random candidates; exact validation."""
    from scipy.spatial import Delaunay
    for _ in range(30):
        extra = [cand[int(i)] for i in rng.permutation(len(cand))[:k]] if cand else []
        pts = list(dict.fromkeys(list(hull) + extra))
        P = np.array(pts, dtype=float)
        tri = Delaunay(P).simplices
        keep = []
        tot = 0
        for t in tri:
            a2 = abs(_area2([pts[int(t[0])], pts[int(t[1])], pts[int(t[2])]]))
            if a2 > 0:
                keep.append([int(v) for v in t])
                tot += a2
        if tot == _area2(hull) and keep:
            used = sorted({v for t in keep for v in t})
            ren = {v: i for i, v in enumerate(used)}
            return [list(pts[v]) for v in used], [[ren[v] for v in t] for t in keep]
    return None


def _triangulate_generic(rng, hull, k):
    """Delaunay of the (shared) hull vertices + k random interior points of this set."""
    from scipy.spatial import Delaunay
    H = np.array(hull, dtype=float)
    cen = H.mean(axis=0)
    for _ in range(50):
        pts = [tuple(float(v) for v in h) for h in hull]
        tries = 0
        while len(pts) < len(hull) + k and tries < 400:
            tries += 1
            w = rng.dirichlet(np.ones(len(hull)))
            q = cen + 0.9 * (w @ H - cen)
            if all(np.hypot(q[0] - a[0], q[1] - a[1]) > 0.3 for a in pts):
                pts.append((float(q[0]), float(q[1])))
        P = np.array(pts)
        tri = Delaunay(P).simplices
        ar = 0.5 * np.abs((P[tri[:, 1], 0] - P[tri[:, 0], 0]) * (P[tri[:, 2], 1] - P[tri[:, 0], 1])
                          - (P[tri[:, 1], 1] - P[tri[:, 0], 1]) * (P[tri[:, 2], 0] - P[tri[:, 0], 0]))
        tot = 0.5 * _area2(hull)
        if abs(ar.sum() - tot) <= 1e-12 * tot and ar.min() > 1e-5 * tot \
                and len(set(tri.ravel().tolist())) == len(pts):
            return [list(q) for q in pts], [[int(v) for v in t] for t in tri]
    return None


SIGNED_PERMUTATIONS = [
    [[1, 0, 0], [0, 1, 0], [0, 0, 1]], [[0, 0, 1], [1, 0, 0], [0, 1, 0]],
    [[0, 1, 0], [0, 0, 1], [1, 0, 0]], [[-1, 0, 0], [0, -1, 0], [0, 0, 1]],
    [[0, -1, 0], [1, 0, 0], [0, 0, 1]], [[1, 0, 0], [0, 0, -1], [0, 1, 0]],
    [[0, 0, -1], [0, 1, 0], [1, 0, 0]],
]


def _case_tri(rng, kind, rect=False):
    """Two regimes.  'lattice': all nodes on the lattice (shared nodes, partially coincident
    edges), mapped only by exactly representable maps, so coincident edges stay exactly
    collinear.  'generic': shared hull vertices, independent random interior points, mapped
    by an arbitrary similarity / rigid motion; edges of the two tessellations are then either
    identical (boundary) or cross transversally.  Partially coincident edges that are only
    collinear up to rounding are the tolerance band of shapely's floating overlay and are not
    generated (observed there: GEOS returns grossly wrong intersections)."""
    regime = "lattice" if (rect or rng.random() < 0.45) else "generic"
    if kind == "match2d":
        # match_2d centres and rotates the nodes itself, so exactly collinear lattice edges do
        # not stay exactly collinear: only the generic regime is outside the overlay's band
        regime = "generic"
    for _ in range(100):
        if rect:
            nx, ny = int(rng.integers(1, 5)), int(rng.integers(1, 5))
            hull = [(0, 0), (nx, 0), (nx, ny), (0, ny)]
            R = max(nx, ny)
        else:
            R = int(rng.choice([4, 6, 9]))
            hull = _hull([(int(a), int(b)) for a, b in
                          rng.integers(0, R + 1, size=(int(rng.integers(3, 9)), 2))])
            if len(hull) < 3 or _area2(hull) <= 0:
                continue
        sets = []
        # pairs only (as in the statement): a third set is overlaid on computed pieces whose
        # rounded vertices make edges nearly collinear - the band where GEOS' floating overlay
        # was observed to lose most of a cell
        nsets = 2
        if regime == "lattice":
            cand = [(x, y) for x in range(R + 1) for y in range(R + 1)
                    if _inside_or_on(hull, (x, y)) and (x, y) not in hull]
        for _s in range(nsets):
            if regime == "lattice":
                t = _triangulate(rng, hull, cand, int(rng.integers(0, 9)))
            else:
                t = _triangulate_generic(rng, hull, int(rng.integers(0, 8)))
            if t is None:
                break
            sets.append({"p": t[0], "t": t[1]})
        if len(sets) != nsets:
            continue
        out = {"kind": kind, "regime": regime, "hull": [list(p) for p in hull], "sets": sets}
        if regime == "lattice":
            out["angle"] = 0.0
            out["scale"] = float(rng.choice([0.25, 0.5, 1.0, 2.0, 8.0]))
            out["shift"] = [float(v) for v in rng.integers(-3, 4, size=2)]
        else:
            out["angle"] = float(rng.uniform(0, 2 * np.pi))
            out["scale"] = float(10.0 ** rng.uniform(-2, 2))
            out["shift"] = [float(v) for v in rng.uniform(-3, 3, size=2)]
            if kind == "tri" and rng.random() < 0.3:
                # micrometre-size tessellations (cell areas ~1e-11): sums of overlaps are
                # scale invariant, absolute area thresholds are not
                out["scale"] = float(10.0 ** rng.uniform(-5.5, -3))
                out["shift"] = [float(v) * out["scale"] for v in rng.uniform(-3, 3, size=2)]
        if rect:
            out["rect"] = [nx, ny]
        if kind == "match2d":
            if regime == "lattice":
                out["rigid_matrix"] = SIGNED_PERMUTATIONS[int(rng.integers(0, len(SIGNED_PERMUTATIONS)))]
                out["rigid_t"] = [float(v) for v in rng.integers(-3, 4, size=3)]
            else:
                out["rigid"] = gg.random_rigid(rng)
        if kind == "surface":
            # the further split into simplexes is only asked for on exactly represented
            # coordinates and two sets: no round-off slivers (on which the option raises)
            out["simplexes"] = bool(regime == "lattice" and nsets == 2 and rng.random() < 0.6)
        return out
    raise RuntimeError("no triangulation drawn")


def floor(tier):
    base = {"cls": "floor", "d": [1.0, 0.0, 0.0], "length": 1.0, "origin": [0.0, 0.0, 0.0],
            "seed": 1}
    out = []
    for kind in ("line", "match1d"):
        out.append({**base, "kind": kind, "x1": [0.0, 0.5, 1.0], "x2": [0.0, 0.25, 0.5, 1.0]})
        out.append({**base, "kind": kind, "x1": [0.0, 1.0], "x2": [0.0, 0.3, 0.7, 1.0],
                    "d": [0.0, 0.0, -1.0]})
        out.append({**base, "kind": kind, "x1": [0.0, 0.2, 0.9, 1.0], "x2": [0.0, 0.2, 0.9, 1.0],
                    "d": [0.6, 0.0, 0.8], "origin": [1.0, -2.0, 0.5], "length": 3.0})
        out.append({**base, "kind": kind, "x1": [0.0, 0.02, 1.0], "x2": [0.0, 0.98, 1.0],
                    "d": [1.0 / 3, 2.0 / 3, -2.0 / 3], "length": 50.0})
    sq = [[0, 0], [2, 0], [2, 2], [0, 2]]
    s1 = {"p": sq, "t": [[0, 1, 2], [0, 2, 3]]}
    s2 = {"p": sq, "t": [[0, 1, 3], [1, 2, 3]]}
    s3 = {"p": sq + [[1, 1]], "t": [[0, 1, 4], [1, 2, 4], [2, 3, 4], [3, 0, 4]]}
    for kind in ("tri", "match2d", "surface"):
        for a, b in ((s1, s2), (s1, s3), (s3, s3)):
            c = {"kind": kind, "hull": sq, "sets": [a, b], "angle": 0.0, "scale": 1.0,
                 "shift": [0.0, 0.0]}
            if kind == "match2d":
                c["rigid"] = {"q": [1.0, 0.0, 0.0, 0.0], "t": [0.0, 0.0, 0.0]}
            if kind == "surface":
                c["simplexes"] = a is s1 and b is s3
                c["rect"] = [2, 2]
            out.append(c)
    out.append({"kind": "match2d", "hull": sq, "sets": [s2, s1], "angle": 0.3, "scale": 2.0,
                "shift": [1.0, -1.0], "rigid": {"q": [0.5, 0.5, 0.5, 0.5], "t": [1.0, 2.0, 3.0]}})
    out.append({"kind": "surface", "hull": sq, "sets": [s2, s3], "angle": 0.0, "scale": 1.0,
                "shift": [0.0, 0.0], "simplexes": True})
    out.append({"kind": "surface", "hull": sq, "sets": [s1, s2, s3], "angle": 0.0, "scale": 0.5,
                "shift": [1.0, -2.0], "simplexes": False})
    out.append({"kind": "surface", "hull": sq, "sets": [s1, s2], "angle": 0.2, "scale": 1.5,
                "shift": [0.3, 0.1], "simplexes": False})
    out.append({"kind": "tri", "hull": sq, "sets": [s1, s2], "angle": 1.1, "scale": 0.7,
                "shift": [0.3, 0.1]})
    return out


def generate(rng, tier, i):
    kind = str(rng.choice(["line", "match1d", "tri", "match2d", "surface"],
                          p=[0.22, 0.28, 0.15, 0.2, 0.15]))
    if kind in ("line", "match1d"):
        return _case_line(rng, kind)
    return _case_tri(rng, kind, rect=bool(kind == "surface" and rng.random() < 0.4))


def warmup():
    """grid construction / numba kernels used by compute_geometry outside case timing."""
    import porepy as pp
    g = pp.TriangleGrid(np.array([[0.0, 1.0, 0.0], [0.0, 0.0, 1.0]]), np.array([[0], [1], [2]]))
    g.compute_geometry()
    pp.TensorGrid(np.array([0.0, 1.0])).compute_geometry()


# ------------------------------------------------------------------------------- check
def check(case, mon):
    kind = case["kind"]
    mon.klass(kind)
    globals()["_check_" + kind](case, mon)


def _sums(mon, name, pairs, n1, n2, m1, m2, mech, detail):
    """pairs: list of (i, j, w).  Non-negativity and per-cell sums for both tessellations."""
    w = np.array([p[2] for p in pairs], dtype=float)
    i = np.array([p[0] for p in pairs], dtype=int)
    j = np.array([p[1] for p in pairs], dtype=int)
    if w.size and w.min() < 0:
        mon.violation(mech + ":negative-overlap", {**detail, "min": float(w.min())})
    s1 = np.bincount(i, weights=w, minlength=n1) if w.size else np.zeros(n1)
    s2 = np.bincount(j, weights=w, minlength=n2) if w.size else np.zeros(n2)
    mon.close(name + "_sum_over_second", s1 / m1, np.ones(n1), TOL,
              mech + ":overlaps-do-not-sum-to-measure-of-first-tessellation-cell",
              scale=1.0, detail=detail)
    mon.close(name + "_sum_over_first", s2 / m2, np.ones(n2), TOL,
              mech + ":overlaps-do-not-sum-to-measure-of-second-tessellation-cell",
              scale=1.0, detail=detail)


def _line_geometry(case):
    d = np.array(case["d"], dtype=float)
    d = d / np.linalg.norm(d)
    o = np.array(case["origin"], dtype=float)
    L = float(case["length"])
    x1 = np.array(case["x1"], dtype=float)
    x2 = np.array(case["x2"], dtype=float)
    p1 = o[:, None] + np.outer(d, x1 * L)
    p2 = o[:, None] + np.outer(d, x2 * L)
    return p1, p2, x1 * L, x2 * L


def _in_segments_3d_band(case, mon, p1, p2):
    """segments_3d decides parallelism with the absolute tolerance 1e-8, (a) on the coordinate
    increments themselves and (b) on the ratio of increments of the two segments, whose
    rounding error is (length ratio) * eps * |coordinate| / |increment|.  Tessellations for
    which (a) an increment is comparable to 1e-8 or (b) the estimated error of the ratio
    comes within a factor 100 of 1e-8 are inside the tolerance band of that function."""
    inc = np.abs(np.hstack([np.diff(p1, axis=1), np.diff(p2, axis=1)]))
    if np.any((inc > 1e-10) & (inc < 1e-6)):
        mon.excluded("1-D: a coordinate increment of a cell lies in the absolute tolerance "
                     "band (1e-10, 1e-6) of segments_3d")
        return True
    big = inc[inc >= 1e-6]
    seg = np.linalg.norm(np.hstack([np.diff(p1, axis=1), np.diff(p2, axis=1)]), axis=0)
    coord = max(float(np.abs(p1).max()), float(np.abs(p2).max()))
    est = (seg.max() / seg.min()) * 2.3e-16 * coord / float(big.min())
    mon.measure("line_ratio_rounding_estimate", est)
    if est > 1e-10:
        mon.excluded("1-D: estimated rounding error of the increment ratio within a factor "
                     "100 of the 1e-8 tolerance of segments_3d")
        return True
    return False


def _check_line(case, mon):
    from porepy.geometry import intersections as isec
    p1, p2, x1, x2 = _line_geometry(case)
    if _in_segments_3d_band(case, mon, p1, p2):
        return
    rng = np.random.default_rng(int(case.get("seed", 0)))
    mon.klass("direction:" + case.get("cls", "?"))

    def segs(n):
        s = np.vstack([np.arange(n - 1), np.arange(1, n)])
        s = s[:, rng.permutation(n - 1)]
        flip = rng.random(n - 1) < 0.5
        s[:, flip] = s[::-1, flip]
        return s
    # also shuffle the node numbering
    perm1, perm2 = rng.permutation(x1.size), rng.permutation(x2.size)
    inv1, inv2 = np.argsort(perm1), np.argsort(perm2)
    l1, l2 = inv1[segs(x1.size)], inv2[segs(x2.size)]
    q1, q2 = p1[:, perm1], p2[:, perm2]
    y1, y2 = x1[perm1], x2[perm2]
    out = isec.line_tessellation(q1, q2, l1, l2)
    mon.count("line_tessellation_calls")
    mon.count("line_cells_summed", l1.shape[1] + l2.shape[1])
    mon.nontrivial(l1.shape[1] >= 2 and l2.shape[1] >= 2 and list(x1) != list(x2))
    m1 = np.abs(y1[l1[0]] - y1[l1[1]])
    m2 = np.abs(y2[l2[0]] - y2[l2[1]])
    detail = {k: case[k] for k in ("d", "length", "origin", "x1", "x2", "seed")}
    _sums(mon, "line", out, l1.shape[1], l2.shape[1], m1, m2, "line_tessellation", detail)
    # each reported overlap is the length of the interval intersection
    L = float(case["length"])
    worst = 0.0
    for (i, j, w) in out:
        a0, a1 = sorted((y1[l1[0, i]], y1[l1[1, i]]))
        b0, b1 = sorted((y2[l2[0, j]], y2[l2[1, j]]))
        ref = max(0.0, min(a1, b1) - max(a0, b0))
        worst = max(worst, abs(w - ref) / L)
    mon.measure("line_pairwise_overlap_error", worst)
    if worst > 1e-7:
        mon.violation("line_tessellation:overlap-differs-from-interval-intersection",
                      {**detail, "error": worst})


def _grid_1d(x, p):
    import porepy as pp
    g = pp.TensorGrid(np.asarray(x, dtype=float))
    g.nodes = p.copy()
    g.compute_geometry()
    return g


def _matrix_checks(mon, name, fun, new_g, old_g, ref_overlap, detail):
    """fun(scaling) -> matrix mapping old cells to new cells."""
    vmin = min(new_g.cell_volumes.min(), old_g.cell_volumes.min())
    tol = 1e-6 * vmin
    A = fun(tol, "averaged").toarray()
    I = fun(tol, "integrated").toarray()
    Z = fun(tol, None).toarray()
    shape = (new_g.num_cells, old_g.num_cells)
    if A.shape != shape or I.shape != shape or Z.shape != shape:
        mon.violation(name + ":wrong-shape", {**detail, "shape": list(A.shape)})
        return
    mon.count("matrix_rows_checked", shape[0])
    mon.count("matrix_columns_checked", shape[1])
    if A.min() < 0 or I.min() < 0:
        mon.violation(name + ":negative-weight", detail)
    mon.close(name + "_averaged_row_sums", A.sum(axis=1), np.ones(shape[0]), TOL,
              name + ":averaged-rows-do-not-sum-to-one", scale=1.0, detail=detail)
    mon.close(name + "_integrated_column_sums", I.sum(axis=0), np.ones(shape[1]), TOL,
              name + ":integrated-columns-do-not-sum-to-one", scale=1.0, detail=detail)
    # the two scalings describe the same overlaps: A_ij |new_i| = I_ij |old_j|
    W1 = A * new_g.cell_volumes[:, None]
    W2 = I * old_g.cell_volumes[None, :]
    mon.close(name + "_scalings_consistent", W1, W2, TOL, name + ":averaged-and-integrated-disagree",
              scale=float(max(new_g.cell_volumes.max(), old_g.cell_volumes.max())), detail=detail)
    # unscaled: ones exactly where the overlap exceeds tol
    want = (W1 > tol).astype(float)
    band = (W1 > 0.01 * tol) & (W1 < 100 * tol)
    if band.any():
        mon.excluded(name + ": overlap inside the tolerance band of scaling=None")
    elif not np.array_equal(Z, want):
        mon.violation(name + ":unscaled-pattern-differs-from-overlaps-above-tol", detail)
    if ref_overlap is not None:
        mon.close(name + "_overlap_vs_reference", W1, ref_overlap, 1e-7,
                  name + ":overlap-differs-from-interval-intersection",
                  scale=float(new_g.cell_volumes.sum()), detail=detail)


def _check_match1d(case, mon):
    from porepy.grids import match_grids as mgr
    p1, p2, x1, x2 = _line_geometry(case)
    if _in_segments_3d_band(case, mon, p1, p2):
        return
    mon.klass("direction:" + case.get("cls", "?"))
    new_g = _grid_1d(x1, p1)
    old_g = _grid_1d(x2, p2)
    detail = {k: case[k] for k in ("d", "length", "origin", "x1", "x2")}
    mon.nontrivial(new_g.num_cells >= 2 and old_g.num_cells >= 2 and list(x1) != list(x2))
    lo = np.maximum(x1[:-1, None], x2[None, :-1])
    hi = np.minimum(x1[1:, None], x2[None, 1:])
    ref = np.clip(hi - lo, 0.0, None)
    mon.count("match_1d_calls", 3)
    _matrix_checks(mon, "match_1d", lambda tol, sc: mgr.match_1d(new_g, old_g, tol, sc),
                   new_g, old_g, ref, detail)


def _tri_geometry(case):
    c, s = np.cos(case["angle"]), np.sin(case["angle"])
    Rm = np.array([[c, -s], [s, c]]) * float(case["scale"])
    sh = np.array(case["shift"], dtype=float)[:, None]
    sets = []
    for st in case["sets"]:
        P = Rm @ np.array(st["p"], dtype=float).T + sh
        T = np.array(st["t"], dtype=int).T
        sets.append((P, T))
    return sets


def _tri_areas(P, T):
    a = P[:, T[0]]
    b = P[:, T[1]]
    c = P[:, T[2]]
    return 0.5 * np.abs((b[0] - a[0]) * (c[1] - a[1]) - (b[1] - a[1]) * (c[0] - a[0]))


def _same_cover(case, mon):
    """Check on the un-mapped data: every set triangulates the hull (exactly for lattice
    data, to 1e-12 for float interior points), every node is inside the hull."""
    hull = [tuple(p) for p in case["hull"]]
    tot = _area2(hull)
    for st in case["sets"]:
        s = sum(abs(_area2([tuple(st["p"][v]) for v in t])) for t in st["t"])
        if abs(s - tot) > 1e-12 * tot or any(
                not _inside_or_on(hull, tuple(p)) for p in st["p"]):
            mon.inconclusive("generated triangulation does not cover the polygon")
            return False
    mon.klass("2d-regime:" + case.get("regime", "lattice"))
    return True


def _check_tri(case, mon):
    from porepy.geometry import intersections as isec
    if not _same_cover(case, mon):
        return
    (P1, T1), (P2, T2) = _tri_geometry(case)[:2]
    out = isec.triangulations(P1.copy(), P2.copy(), T1.copy(), T2.copy())
    mon.count("triangulations_calls")
    mon.count("triangle_cells_summed", T1.shape[1] + T2.shape[1])
    mon.nontrivial(T1.shape[1] >= 2 and T2.shape[1] >= 2 and case["sets"][0] != case["sets"][1])
    detail = {k: case[k] for k in ("hull", "sets", "angle", "scale", "shift")}
    _sums(mon, "tri", out, T1.shape[1], T2.shape[1], _tri_areas(P1, T1), _tri_areas(P2, T2),
          "triangulations", detail)


def _check_match2d(case, mon):
    import porepy as pp
    from porepy.grids import match_grids as mgr
    if not _same_cover(case, mon):
        return
    (P1, T1), (P2, T2) = _tri_geometry(case)[:2]
    if "rigid_matrix" in case:
        Rr = np.array(case["rigid_matrix"], dtype=float)
        tt = np.array(case["rigid_t"], dtype=float)[:, None]
    else:
        Rr = gg.quat_to_rot(case["rigid"]["q"])
        tt = np.array(case["rigid"]["t"], dtype=float)[:, None]

    def grid(P, T):
        g = pp.TriangleGrid(P.copy(), T.copy())
        g.nodes = Rr @ g.nodes + tt
        g.compute_geometry()
        return g
    new_g, old_g = grid(P1, T1), grid(P2, T2)
    mon.nontrivial(new_g.num_cells >= 2 and old_g.num_cells >= 2
                   and case["sets"][0] != case["sets"][1])
    detail = {k: case.get(k) for k in ("hull", "sets", "angle", "scale", "shift", "rigid",
                                       "rigid_matrix", "rigid_t")}
    mon.count("match_2d_calls", 3)
    _matrix_checks(mon, "match_2d", lambda tol, sc: mgr.match_2d(new_g, old_g, tol, sc),
                   new_g, old_g, None, detail)


def _shoelace(p):
    x, y = p[0], p[1]
    return 0.5 * abs(float(np.dot(x, np.roll(y, -1)) - np.dot(y, np.roll(x, -1))))


def _check_surface(case, mon):
    from porepy.geometry import intersections as isec
    if not _same_cover(case, mon):
        return
    sets = _tri_geometry(case)
    poly_sets = [[P[:, T[:, k]] for k in range(T.shape[1])] for P, T in sets]
    if case.get("rect"):
        # replace the first set by the Cartesian cells of the lattice rectangle
        nx, ny = case["rect"]
        c, s = np.cos(case["angle"]), np.sin(case["angle"])
        Rm = np.array([[c, -s], [s, c]]) * float(case["scale"])
        sh = np.array(case["shift"], dtype=float)[:, None]
        cells = []
        for i in range(nx):
            for j in range(ny):
                q = np.array([[i, j], [i + 1, j], [i + 1, j + 1], [i, j + 1]], dtype=float).T
                cells.append(Rm @ q + sh)
        poly_sets[0] = cells
        mon.klass("surface:cartesian-vs-triangles")
    simplexes = bool(case.get("simplexes"))
    try:
        isect, maps = isec.surface_tessellations([[p.copy() for p in ps] for ps in poly_sets],
                                                 return_simplexes=simplexes)
    except ValueError as e:
        if "zero-size array" in str(e):
            # shapely >= 2 returns an *empty Polygon* for disjoint polygons whose bounding
            # boxes overlap; the function keeps it as a piece and fails on its coordinates
            mon.violation("surface_tessellations:empty-shapely-intersection-kept-as-piece",
                          {k: case.get(k) for k in ("hull", "sets", "angle", "scale", "shift",
                                                    "rect", "simplexes")})
            return
        raise
    except NotImplementedError:
        if simplexes:
            mon.excluded("surface_tessellations(return_simplexes=True): documented "
                         "NotImplementedError (piece not recognised as convex)")
            return
        raise
    mon.count("surface_tessellations_calls")
    mon.klass(f"surface:{len(poly_sets)}sets" + ("+simplexes" if simplexes else ""))
    mon.nontrivial(all(len(ps) >= 2 for ps in poly_sets))
    detail = {k: case[k] for k in ("hull", "sets", "angle", "scale", "shift")}
    detail["rect"] = case.get("rect")
    detail["simplexes"] = simplexes
    if len(maps) != len(poly_sets):
        mon.violation("surface_tessellations:number-of-mappings", detail)
        return
    a = np.array([_shoelace(p) for p in isect])
    if simplexes and any(p.shape != (2, 3) for p in isect):
        mon.violation("surface_tessellations:non-triangle-returned-with-return_simplexes", detail)
    for k, (ps, M) in enumerate(zip(poly_sets, maps)):
        M = M.toarray()
        if M.shape != (len(isect), len(ps)):
            mon.violation("surface_tessellations:mapping-shape", {**detail, "set": k})
            return
        if not np.array_equal(np.count_nonzero(M, axis=1), np.ones(len(isect), dtype=int)) \
                or not np.all(M[M != 0] == 1):
            mon.violation("surface_tessellations:piece-not-mapped-to-exactly-one-polygon",
                          {**detail, "set": k})
        area = np.array([_shoelace(p) for p in ps])
        mon.count("surface_cells_summed", len(ps))
        mon.close("surface_sum_of_pieces", (M.T @ a) / area, np.ones(len(ps)), TOL_SURF,
                  "surface_tessellations:pieces-do-not-sum-to-measure-of-input-polygon",
                  scale=1.0, detail={**detail, "set": k})
