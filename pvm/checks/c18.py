"""C18 Mixed finite elements reproduce linear pressures exactly.

Monitor: ``RT0.discretize`` / ``MVEM.discretize`` + ``assemble_matrix_rhs`` run on a
generated simplex grid (1-D, triangles, tetrahedra; perturbed, affinely mapped, 1-D/2-D
grids embedded in 3-D by a rigid motion) with constant SPD permeability and Dirichlet
data taken from ``p = a.x + c`` on every boundary face; the saddle-point system is solved
densely and read through ``extract_flux`` / ``extract_pressure``.  Oracle (closed form):
face flux ``-(K a).n_f`` (n_f = area-weighted stored normal), cell pressure ``p(x_c)``;
the H(div) mass matrix is symmetric with positive smallest eigenvalue (dense eigvalsh).
"""
from __future__ import annotations

import numpy as np

from pvm.gen import grids as gg

PROP = "C18"
N = {"quick": 70, "thorough": 2500}
WORKERS = {"quick": 4, "thorough": 16}
TIMEOUT = {"quick": 300, "thorough": 3000}
RULE = ("seeded simplex grid recipes: 1-D Cartesian/tensor, structured and Delaunay "
        "triangles, structured tetrahedra; optionally node-perturbed, affinely mapped, and "
        "(dim < 3) embedded in 3-D by a rigid motion (random / axis / near-axis rotations); "
        "constant SPD permeability = in-plane SPD block (isotropic, diagonal or full, "
        "cond <= ~50) rotated with the grid plus an arbitrary normal component; linear "
        "pressure with a general 3-D gradient (also constant pressure and gradient normal "
        "to the grid); both RT0 and MVEM on every case; non-trivial = >= 2 cells and "
        "a != 0; distinct = case hash")
REACH = [
    ("numerics/fem/rt0.py", "RT0.discretize"),
    ("numerics/fem/rt0.py", "RT0.massHdiv"),
    ("numerics/vem/mvem.py", "MVEM.discretize"),
    ("numerics/vem/mvem.py", "MVEM.massHdiv"),
    ("numerics/vem/dual_elliptic.py", "DualElliptic.assemble_matrix_rhs"),
    ("numerics/vem/dual_elliptic.py", "DualElliptic.assemble_rhs"),
    ("numerics/vem/dual_elliptic.py", "DualElliptic.extract_flux"),
    ("numerics/vem/dual_elliptic.py", "DualElliptic.extract_pressure"),
]
REACH_LINES = [
    ("numerics/vem/dual_elliptic.py", "rhs[is_dir] += -sign[is_dir] * bc_val[is_dir]"),
    ("numerics/fem/rt0.py", "inv_matrix = self._inv_matrix_3d"),
    ("numerics/fem/rt0.py", "inv_matrix = self._inv_matrix_1d"),
    ("numerics/vem/mvem.py", "inv_matrix = self._inv_matrix_2d"),
    ("numerics/fem/rt0.py", "k.rotate(R)"),
    ("numerics/vem/mvem.py", "k.rotate(R)"),
]
REQUIRED = {"solves_rt0": 15, "solves_mvem": 15, "faces_flux_checked": 300,
            "cells_pressure_checked": 100, "mass_matrices_spd_checked": 30,
            "cases_dim1": 3, "cases_dim2": 6, "cases_dim3": 3, "cases_embedded": 4}
ASSUMPTIONS = [
    "Dirichlet data on every boundary face (statement); fluxes are face-integrated "
    "quantities w.r.t. the stored area-weighted normal",
    "for embedded grids the permeability is block-diagonal w.r.t. the grid's tangent "
    "space (in-plane SPD block rotated with the grid), so the projected tensor is the "
    "in-plane block",
    "eigenvalues by dense eigvalsh for mass matrices with <= 400 rows (larger ones are "
    "counted as excluded from the definiteness check)",
]
LEVEL_TEXT = ("RT0 and MVEM reproduce linear pressures (exact face fluxes and cell-centre "
              "pressures) and have symmetric positive definite H(div) mass matrices on "
              "sampled 1-D/2-D/3-D simplex grids incl. grids embedded in 3-D, for constant "
              "anisotropic permeability.")
TECHNIQUE = "closed-form Darcy oracle on the solved mixed system + dense eigenvalues"
TOL = 1e-9
KW = "flow"


def _case(recipe, K, kperp, a, c):
    return {"grid": recipe, "K": [[float(v) for v in row] for row in K],
            "kperp": float(kperp), "a": [float(v) for v in a], "c": float(c)}


def _rand_K(rng, nd, klass=None):
    klass = klass or str(rng.choice(["iso", "diag", "full"], p=[0.2, 0.25, 0.55]))
    if klass == "iso":
        K = rng.uniform(0.2, 5.0) * np.eye(nd)
    elif klass == "diag":
        K = np.diag(rng.uniform(0.2, 5.0, size=nd))
    else:
        Q, _ = np.linalg.qr(rng.normal(size=(nd, nd)))
        ev = np.exp(rng.uniform(np.log(0.3), np.log(8.0), size=nd))
        K = Q @ np.diag(ev) @ Q.T
        K = 0.5 * (K + K.T)
    return np.round(K, 6)


def floor(tier):
    out = []
    rng = np.random.default_rng(18)
    recs = [r for r in gg.floor_recipes() if gg.is_simplex(r)]
    recs += [
        {"kind": "cart", "dim": 1, "n": [3], "phys": [1.0],
         "rigid": {"q": [0.7071067811865476, 0.0, 0.7071067811865476, 0.0],
                   "t": [0.0, 0.0, 0.0]}},                      # line along -z / z axis
        {"kind": "tri", "dim": 2, "n": [2, 2], "phys": [1.0, 1.0],
         "rigid": {"q": [0.7071067811865476, 0.7071067811865476, 0.0, 0.0],
                   "t": [0.5, 0.5, 0.5]}},                      # plane xz
        {"kind": "delaunay", "dim": 2, "n": [3, 2], "phys": [2.0, 1.0], "tseed": 11,
         "affine": [[1.2, 0.3, 0.0], [-0.2, 0.9, 0.0], [0.0, 0.0, 1.0]],
         "rigid": {"q": [0.4, -0.3, 0.6, 0.62], "t": [1.0, 0.0, -1.0]}},
        {"kind": "tet", "dim": 3, "n": [1, 1, 1], "phys": [1.0, 1.0, 1.0],
         "affine": [[1.1, 0.2, -0.1], [0.1, 0.9, 0.3], [-0.2, 0.1, 1.2]]},
        {"kind": "tri", "dim": 2, "n": [1, 1], "phys": [1.0, 1.0]},
    ]
    klasses = ["iso", "diag", "full"]
    for k, r in enumerate(recs):
        nd = r["dim"]
        K = _rand_K(rng, nd, klasses[k % 3])
        a = np.round(rng.normal(size=3), 4)
        out.append(_case(r, K, 0.5 + 0.3 * k, a, np.round(rng.normal(), 3)))
    # permeability scales far from one
    for k, sc in enumerate([1e-12, 1e9, 1e-6, 1e11]):
        r = recs[[0, 3, 1, 2][k] % len(recs)]
        out.append(_case(r, np.array(_rand_K(rng, r["dim"], klasses[k % 3])) * sc, sc,
                         np.round(rng.normal(size=3), 4), 0.7))
    # constant pressure, and a gradient normal to an embedded plane (zero flux)
    out.append(_case(recs[2], _rand_K(rng, 2, "full"), 1.0, [0.0, 0.0, 0.0], 2.5))
    out.append(_case({"kind": "tri", "dim": 2, "n": [2, 2], "phys": [1.0, 1.0]},
                     _rand_K(rng, 2, "full"), 3.0, [0.0, 0.0, 1.7], -1.0))
    return out


def generate(rng, tier, i):
    dim = int(rng.choice([1, 2, 3], p=[0.2, 0.45, 0.35]))
    r = gg.random_recipe(rng, dims=(dim,), simplex_only=True, rigid="embedded",
                         max_cells=(48 if tier == "quick" else 110) if dim == 3 else 50)
    nd = r["dim"]
    a = rng.normal(size=3)
    if rng.random() < 0.1:
        a[int(rng.integers(0, 3))] = 0.0
    K = _rand_K(rng, nd)
    kperp = np.round(rng.uniform(0.1, 5.0), 4)
    if rng.random() < 0.2:
        # permeability far from one (SI rock permeabilities are ~1e-15..1e-9; scaled units
        # give large numbers): exactness and definiteness are scale invariant.  The upper
        # end is limited in 3-D by an absolute-tolerance consistency assertion of MVEM.
        sc = 10.0 ** float(rng.choice([-14, -9, -4, 4, 6, 9, 11]))
        K = K * sc
        kperp = kperp * sc
    return _case(r, K, kperp, np.round(a, 5), np.round(rng.normal() * 3, 4))


def _frame(recipe):
    """Linear map of the recipe restricted to rotations: the rigid rotation (affine maps
    of the recipes act inside the coordinate plane, so the tangent space of the built
    grid is R @ span(e_1..e_dim))."""
    if recipe.get("rigid"):
        return gg.quat_to_rot(recipe["rigid"]["q"])
    return np.eye(3)


def check(case, mon):
    import porepy as pp

    r = case["grid"]
    if not gg.is_simplex(r):
        mon.excluded("not a simplex grid (statement covers simplex grids)")
        return
    g = gg.build(r)
    nd, nc, nf = g.dim, g.num_cells, g.num_faces
    R = _frame(r)
    Kd = np.asarray(case["K"], dtype=float)
    Kl = float(case["kperp"]) * np.eye(3)
    Kl[:nd, :nd] = Kd
    K3 = R @ Kl @ R.T
    K3 = 0.5 * (K3 + K3.T)
    a = np.asarray(case["a"], dtype=float)
    c = float(case["c"])
    one = np.ones(nc)
    perm = pp.SecondOrderTensor(kxx=K3[0, 0] * one, kyy=K3[1, 1] * one, kzz=K3[2, 2] * one,
                                kxy=K3[0, 1] * one, kxz=K3[0, 2] * one, kyz=K3[1, 2] * one)

    def p(x):
        return a @ x + c

    fi = np.asarray(g.cell_faces.tocoo().row)
    bf = np.flatnonzero(np.bincount(fi, minlength=nf) == 1)
    bc_val = np.zeros(nf)
    bc_val[bf] = p(g.face_centers[:, bf])
    want_flux = -(K3 @ a) @ g.face_normals
    want_p = p(g.cell_centers)
    amax = float(np.max(g.face_areas))
    # flux scale |K| |a| area, plus the round-off scale of differencing pressures of size
    # |p| over a cell (|K| |p| / h area), so that zero fluxes (constant pressure, gradient
    # normal to the grid) are compared against a meaningful magnitude
    h = float(np.min(g.cell_volumes)) ** (1.0 / nd)
    fscale = float(np.linalg.norm(K3, 2) * amax
                   * (np.linalg.norm(a) + np.max(np.abs(want_p)) / h + 1e-300))
    pscale = float(max(1.0, np.max(np.abs(want_p))))

    mon.count(f"cases_dim{nd}")
    if r.get("rigid"):
        mon.count("cases_embedded")
    mon.klass(f"{r['kind']}{nd}d" + ("+perturb" if r.get("perturb") else "")
              + ("+affine" if r.get("affine") is not None else "")
              + ("+embedded" if r.get("rigid") else ""))
    offd = np.max(np.abs(Kd - np.diag(np.diag(Kd)))) if nd > 1 else 0.0
    mon.klass("K:" + ("full" if offd > 0 else
                      ("iso" if np.ptp(np.diag(Kd)) == 0 else "diag")))
    mon.nontrivial(nc >= 2 and bool(np.any(a != 0)))

    for name, cls in (("rt0", pp.RT0), ("mvem", pp.MVEM)):
        bc = pp.BoundaryCondition(g, bf, ["dir"] * bf.size)
        data = pp.initialize_data({}, KW, {"second_order_tensor": perm, "bc": bc,
                                           "bc_values": bc_val.copy()})
        solver = cls(KW)
        solver.discretize(g, data)
        A, rhs = solver.assemble_matrix_rhs(g, data)
        A = A.toarray()
        if A.shape != (nf + nc, nf + nc):
            mon.violation(f"{name}:system-shape", {"shape": list(A.shape)})
            continue
        # the saddle-point system [[M(1/K), B^T], [B, 0]] is badly SCALED (not ill posed) for
        # permeabilities far from one: decide solvability and solve in the symmetric
        # scaling diag(sqrt(k) I_faces, 1/sqrt(k) I_cells), which turns M into k M = O(1)
        kref = float(np.exp(np.mean(np.log(np.abs(np.diag(np.asarray(case["K"], dtype=float))[:nd])))))
        S = np.concatenate([np.full(nf, np.sqrt(kref)), np.full(nc, 1.0 / np.sqrt(kref))])
        As = S[:, None] * A * S[None, :]
        cond = float(np.linalg.cond(As))
        mon.measure(f"{name}_condition_log10", np.log10(cond) if np.isfinite(cond) else 99.0)
        if not np.isfinite(cond) or cond > 1e12:
            mon.violation(f"{name}:singular-system-with-dirichlet-data", {"cond": cond})
            continue
        up = S * np.linalg.solve(As, S * rhs)
        mon.count(f"solves_{name}")
        tol = 1e-15 * max(cond, 1e6)
        u = solver.extract_flux(g, up, data)
        pc = solver.extract_pressure(g, up, data)
        mon.close(f"{name}_flux", u, want_flux, tol, f"{name}:flux-linear-pressure",
                  scale=fscale, detail={"dim": nd, "embedded": bool(r.get("rigid"))})
        mon.close(f"{name}_pressure", pc, want_p, tol, f"{name}:pressure-linear-pressure",
                  scale=pscale, detail={"dim": nd, "embedded": bool(r.get("rigid"))})
        mon.count("faces_flux_checked", nf)
        mon.count("cells_pressure_checked", nc)

        mass = data[pp.DISCRETIZATION_MATRICES][KW][solver.mass_matrix_key]
        Mm = mass.toarray() if hasattr(mass, "toarray") else np.asarray(mass)
        if Mm.shape != (nf, nf):
            mon.violation(f"{name}:mass-shape", {"shape": list(Mm.shape)})
            continue
        mmax = float(np.max(np.abs(Mm)))
        mon.close(f"{name}_mass_symmetry", Mm, Mm.T, 1e-12, f"{name}:mass-not-symmetric",
                  scale=mmax)
        if nf <= 400:
            ev = np.linalg.eigvalsh(0.5 * (Mm + Mm.T))
            ratio = float(ev[0] / ev[-1])
            mon.measure(f"{name}_mass_min_over_max_eigenvalue", ratio)
            if not (ratio > 1e-9):
                mon.violation(f"{name}:mass-not-positive-definite",
                              {"min_eig": float(ev[0]), "max_eig": float(ev[-1])})
            mon.count("mass_matrices_spd_checked")
        else:
            mon.excluded("mass matrix larger than 400 faces: eigenvalues not computed")
