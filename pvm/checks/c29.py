"""C29 Segment splitting yields a non-crossing covering subdivision.

Monitor: ``split_intersecting_segments_2d`` is called on generated integer segment sets;
the returned points / edges / mapping are decided by an exact rational tiling oracle
(``pvm.ref.c28_rational``): for every input segment s the exact break points
T_s = {0,1} u {parameters at which s meets another input} are computed with Fractions;
the output edges lying on s must be exactly the consecutive intervals of T_s.  Together
with vertex uniqueness this implies covering, containment and "meet only at shared end
points"; duplicates, the edge -> input mapping, tag inheritance and input immutability
are checked separately.  No float set differences are formed (DESIGN C29 / pitfalls).
"""
from __future__ import annotations

from fractions import Fraction as F

import numpy as np

from pvm.ref import c28_rational as R

PROP = "C29"
N = {"quick": 800, "thorough": 30000}
WORKERS = {"quick": 4, "thorough": 16}
TIMEOUT = {"quick": 300, "thorough": 3000}
RULE = ("2-8 (thorough: up to 12) integer segments in [0,6]^2 from seeded recipes: uniform, "
        "axis-aligned (bounding-box wiggle branch), collinear overlaps / containments / "
        "identical copies, T-junctions, shared end points (same point index or duplicated "
        "coordinates), stars through one lattice point, grids; 1-2 tag rows, a distinct tag "
        "per input; zero-length inputs excluded (documented ValueError of segments_2d); "
        "non-trivial = at least one pair of inputs meets; distinct = hash of points+edges")
REACH = [
    ("geometry/intersections.py", "split_intersecting_segments_2d"),
    ("geometry/intersections.py", "segments_2d"),
    ("geometry/intersections.py", "_identify_overlapping_rectangles"),
]
REACH_LINES = [
    ("geometry/intersections.py", "tags = e[2:].copy()"),
    ("geometry/intersections.py", "new_pts.append(ipt.squeeze())"),
    ("geometry/intersections.py", "new_pts.append(ipt.squeeze().T)"),
    ("geometry/intersections.py", "main_other_start = normalize(0.5 * (start_other + end_other) - start_main)"),
    ("geometry/intersections.py", "_, edge_map, all_2_unique = np.unique("),
    # uniquify_point_set itself is numba-compiled (invisible to sys.monitoring): its call site
    ("geometry/intersections.py", "unique_all_pt, ia, ib = pp.array_operations.uniquify_point_set(all_pt, tol)"),
]
REQUIRED = {"sets_checked": 100, "input_segments_tiled": 400, "pair:X-interior": 50,
            "pair:T-endpoint-interior": 50, "pair:L-endpoint-endpoint": 50,
            "pair:collinear-overlap": 10, "pair:collinear-contained": 10,
            "pair:collinear-touching": 10, "axis_aligned_inputs": 50,
            "edges_removed_as_duplicates": 10, "sets_without_intersection": 3}
ASSUMPTIONS = [
    "integer coordinates in [0,6]^2: distinct meeting points are >= 1e-4 apart, far above tol=1e-8",
    "an output edge 'lies on' an input if both end points are within 1e-9 of it",
    "tag_info (third return value) is observed (counters) but not asserted: not part of the statement",
]
LEVEL_TEXT = ("Every generated integer segment set is split by the real function and the result "
              "is decided by an exact rational tiling oracle per input segment (covering, "
              "containment, meeting only at shared vertices), plus duplicate / mapping / tag / "
              "immutability checks.")
TECHNIQUE = "reference-model monitor (exact rational break-point tiling per input segment)"
TOL = 1e-9
BOX = 6


# ----------------------------------------------------------------------------- generator

def _rand_pt(rng):
    return (int(rng.integers(0, BOX + 1)), int(rng.integers(0, BOX + 1)))


def _in_box(p):
    return 0 <= p[0] <= BOX and 0 <= p[1] <= BOX


def _segments(rng, mode, n):
    segs = []
    tries = 0
    center = (int(rng.integers(2, 5)), int(rng.integers(2, 5)))
    while len(segs) < n and tries < 500:
        tries += 1
        if mode == "axis" or (mode == "mixed" and rng.random() < 0.3):
            a = _rand_pt(rng)
            if rng.random() < 0.5:
                b = (int(rng.integers(0, BOX + 1)), a[1])
            else:
                b = (a[0], int(rng.integers(0, BOX + 1)))
        elif mode == "overlap" and segs and rng.random() < 0.6:
            # collinear with an existing segment
            a0, a1 = segs[int(rng.integers(len(segs)))]
            d = R.sub(a1, a0)
            g = int(np.gcd(d[0], d[1]))
            d = (d[0] // g, d[1] // g)
            k0, k1 = (int(v) for v in rng.integers(-BOX, BOX + 1, size=2))
            if rng.random() < 0.25:
                k0 = 0
            if rng.random() < 0.15:
                k0, k1 = 0, g      # identical copy
            a, b = R.add(a0, R.mul(d, k0)), R.add(a0, R.mul(d, k1))
        elif mode == "tjunction" and segs and rng.random() < 0.6:
            # end point on an existing segment (lattice point of it) or on one of its ends
            a0, a1 = segs[int(rng.integers(len(segs)))]
            d = R.sub(a1, a0)
            g = int(np.gcd(d[0], d[1]))
            k = int(rng.integers(0, g + 1))
            a = R.add(a0, R.mul((d[0] // g, d[1] // g), k))
            b = _rand_pt(rng)
        elif mode == "star" and rng.random() < 0.8:
            c = center
            d = (int(rng.integers(-3, 4)), int(rng.integers(-3, 4)))
            i, j = int(rng.integers(0, 2)), int(rng.integers(1, 2))
            a, b = R.sub(c, R.mul(d, i)), R.add(c, R.mul(d, j))
        elif mode == "grid":
            k = int(rng.integers(0, BOX + 1))
            lo, hi = sorted(int(v) for v in rng.integers(0, BOX + 1, size=2))
            if rng.random() < 0.5:
                a, b = (lo, k), (hi, k)
            else:
                a, b = (k, lo), (k, hi)
        else:
            a, b = _rand_pt(rng), _rand_pt(rng)
        a, b = tuple(int(v) for v in a), tuple(int(v) for v in b)
        if a == b or not _in_box(a) or not _in_box(b):
            continue
        segs.append((a, b))
    return segs


MODES = ["uniform", "mixed", "axis", "overlap", "tjunction", "star", "grid"]


def _build_case(rng, mode, n, share, ntags):
    segs = _segments(rng, mode, n)
    if len(segs) < 2:
        segs = [((0, 0), (6, 6)), ((0, 6), (6, 0))]
    pts = []
    index = {}
    edges = []
    for a, b in segs:
        col = []
        for q in (a, b):
            if share and q in index:
                col.append(index[q])
            else:
                index[q] = len(pts)
                pts.append(list(q))
                col.append(len(pts) - 1)
        edges.append(col)
    tags = [[10 + i for i in range(len(segs))]]
    if ntags == 2:
        tags.append([int(v) for v in rng.integers(0, 3, size=len(segs))])
    return {"pts": pts, "edges": edges, "tags": tags, "mode": mode,
            "int_dtype": bool(rng.random() < 0.3)}


def _mk(segs, share=True, tags2=False, mode="floor", int_dtype=False):
    pts, index, edges = [], {}, []
    for a, b in segs:
        col = []
        for q in (tuple(a), tuple(b)):
            if share and q in index:
                col.append(index[q])
            else:
                index[q] = len(pts)
                pts.append(list(q))
                col.append(len(pts) - 1)
        edges.append(col)
    tags = [[10 + i for i in range(len(segs))]]
    if tags2:
        tags.append([i % 2 for i in range(len(segs))])
    return {"pts": pts, "edges": edges, "tags": tags, "mode": mode, "int_dtype": int_dtype}


def floor(tier):
    F_ = []
    X = [((0, 0), (6, 6)), ((0, 6), (6, 0))]
    F_.append(_mk(X))
    F_.append(_mk([((0, 0), (2, 0)), ((3, 3), (4, 5))]))                    # nothing meets
    F_.append(_mk([((0, 0), (2, 0)), ((3, 3), (4, 5)), ((5, 0), (6, 1))], tags2=True))
    F_.append(_mk([((0, 0), (1, 1)), ((4, 4), (6, 6)), ((0, 6), (1, 5))]))  # collinear disjoint
    F_.append(_mk([((0, 3), (6, 3)), ((3, 0), (3, 6))]))                    # axis aligned X
    F_.append(_mk([((0, 3), (6, 3)), ((3, 3), (3, 6))]))                    # axis aligned T
    F_.append(_mk([((0, 3), (6, 3)), ((3, 3), (3, 6))], share=False))
    F_.append(_mk([((0, 0), (4, 0)), ((2, 0), (6, 0))]))                    # overlap
    F_.append(_mk([((0, 0), (6, 0)), ((2, 0), (4, 0))], tags2=True))        # contained
    F_.append(_mk([((0, 0), (6, 0)), ((0, 0), (6, 0))], share=True))        # identical, same indices
    F_.append(_mk([((0, 0), (6, 0)), ((6, 0), (0, 0))], share=False))       # identical reversed, dup coords
    F_.append(_mk([((0, 0), (3, 0)), ((3, 0), (6, 0))]))                    # collinear touching
    F_.append(_mk([((0, 0), (3, 0)), ((3, 0), (6, 0))], share=False))
    F_.append(_mk([((0, 0), (3, 3)), ((3, 3), (6, 0)), ((6, 0), (0, 0))]))  # closed triangle
    F_.append(_mk([((0, 0), (6, 6)), ((0, 6), (6, 0)), ((0, 3), (6, 3)), ((3, 0), (3, 6))]))  # star
    F_.append(_mk([((0, 0), (6, 6)), ((0, 6), (6, 0)), ((0, 3), (6, 3)), ((3, 0), (3, 6))],
                  share=False, tags2=True, int_dtype=True))
    F_.append(_mk([((0, 1), (6, 1)), ((0, 4), (6, 4)), ((1, 0), (1, 6)), ((5, 0), (5, 6))]))  # grid
    F_.append(_mk([((0, 0), (6, 2)), ((0, 2), (6, 0)), ((1, 0), (2, 6)), ((0, 5), (6, 4))]))
    F_.append(_mk([((0, 0), (6, 0)), ((1, 0), (3, 0)), ((2, 0), (5, 0)), ((4, 0), (4, 3))]))  # multi overlap + T
    F_.append(_mk([((0, 0), (6, 3)), ((2, 1), (4, 2)), ((4, 2), (4, 6)), ((0, 6), (4, 2))]))  # oblique overlap + T
    F_.append(_mk([((1, 1), (5, 1)), ((5, 1), (5, 5)), ((5, 5), (1, 5)), ((1, 5), (1, 1)),
                   ((0, 3), (6, 3)), ((3, 0), (3, 6))], tags2=True))        # box crossed by a cross
    F_.append(_mk([((0, 0), (6, 5)), ((0, 5), (6, 0)), ((0, 1), (5, 6)), ((1, 0), (2, 6)),
                   ((6, 1), (0, 4)), ((3, 0), (4, 6)), ((0, 2), (6, 3)), ((2, 6), (6, 2))]))
    # long thin configurations: properly crossing segments that are nearly parallel
    # (|sin| ~ 1e-3 .. 1e-5, far above the code's tolerance)
    F_.append(_mk([((0, 0), (1000, 1)), ((0, 1), (1000, 0))]))
    F_.append(_mk([((0, 0), (100000, 1)), ((0, 1), (100000, 0))]))
    F_.append(_mk([((0, 0), (100000, 2)), ((0, 1), (100000, 0)), ((50000, -3), (50000, 3))],
                  tags2=True))
    F_.append(_mk([((0, 0), (3, 100000)), ((1, 0), (0, 100000)), ((0, 50000), (3, 50001))]))
    return F_


def generate(rng, tier, i):
    mode = MODES[i % len(MODES)]
    nmax = 8 if tier == "quick" else 12
    n = int(rng.integers(2, nmax + 1))
    return _build_case(rng, mode, n, share=bool(rng.random() < 0.6), ntags=int(rng.integers(1, 3)))


# ----------------------------------------------------------------------------- oracle

def _expected_breaks(segs):
    """For every input segment the sorted exact break parameters, and pair statistics."""
    n = len(segs)
    T = [{F(0), F(1)} for _ in range(n)]
    rels = []
    for i in range(n):
        for j in range(i + 1, n):
            a0, a1 = segs[i]
            b0, b1 = segs[j]
            r = R.seg_intersection(a0, a1, b0, b1)
            rels.append(R.seg_relation(a0, a1, b0, b1, r))
            for P in r[1:]:
                T[i].add(R.param_on_segment(P, a0, a1)[0])
                T[j].add(R.param_on_segment(P, b0, b1)[0])
    return [sorted(t) for t in T], rels


def _dist_point_segment(p, a, b):
    d = b - a
    t = float(np.dot(p - a, d) / np.dot(d, d))
    tc = min(max(t, 0.0), 1.0)
    return float(np.linalg.norm(p - (a + tc * d))), t


def warmup():
    import porepy  # noqa: F401


def check(case, mon):
    from porepy.geometry.intersections import split_intersecting_segments_2d

    pts_i = [tuple(int(v) for v in p) for p in case["pts"]]
    edges_i = [tuple(int(v) for v in c) for c in case["edges"]]
    tags = np.asarray(case["tags"], dtype=int).reshape((len(case["tags"]), -1))
    p = np.array(pts_i, dtype=int if case.get("int_dtype") else float).T
    e = np.vstack((np.array(edges_i, dtype=int).T, tags))
    segs = [(pts_i[a], pts_i[b]) for a, b in edges_i]
    n_in = len(segs)
    mon.klass(case.get("mode", "?"))

    breaks, rels = _expected_breaks(segs)
    for r in rels:
        mon.count("pair:" + r)
    meeting = sum(1 for r in rels if r not in ("coplanar-miss", "parallel-offset",
                                                "collinear-disjoint", "skew"))
    mon.nontrivial(meeting > 0)
    mon.count("axis_aligned_inputs", sum(1 for a, b in segs if a[0] == b[0] or a[1] == b[1]))

    p0, e0 = p.copy(), e.copy()
    out = split_intersecting_segments_2d(p, e, tol=1e-8, return_argsort=True)
    mon.count("sets_checked")
    mon.count("input_segments", n_in)
    if not (isinstance(out, tuple) and len(out) == 4):
        mon.violation("split:malformed-return", {"len": len(out) if isinstance(out, tuple) else None})
        return
    new_p, new_e, tag_info, argsort = out
    new_p = np.asarray(new_p, dtype=float)
    new_e = np.asarray(new_e)
    argsort = np.asarray(argsort)
    if meeting == 0:
        mon.count("sets_without_intersection")

    # inputs not mutated
    if not (np.array_equal(p, p0) and np.array_equal(e, e0) and p.dtype == p0.dtype):
        mon.violation("split:input-mutated", {})

    # shapes
    m = new_e.shape[1] if new_e.ndim == 2 else -1
    if new_e.ndim != 2 or new_e.shape[0] != e.shape[0] or argsort.shape != (m,) \
            or new_p.ndim != 2 or new_p.shape[0] != 2:
        mon.violation("split:malformed-return", {"edges": list(new_e.shape), "argsort": list(argsort.shape),
                                                 "points": list(new_p.shape)})
        return
    if m and (new_e[:2].min() < 0 or new_e[:2].max() >= new_p.shape[1]):
        mon.violation("split:edge-index-out-of-range", {})
        return
    mon.count("output_edges", m)

    # degenerate edges, duplicate unordered edges
    und = np.sort(new_e[:2], axis=0)
    if np.any(und[0] == und[1]):
        mon.violation("split:zero-length-edge", {"edges": und[:, und[0] == und[1]].tolist()})
    if np.unique(und, axis=1).shape[1] != m:
        mon.violation("split:duplicate-edge", {"edges": und.tolist()})

    # coincident vertices with distinct indices: observed only.  (When no pair of inputs is
    # found to intersect the function returns its input unchanged, so end points that the
    # caller passed twice stay duplicated; geometrically the edges still meet in a common end
    # point, which is all the statement asks for.)
    used = np.unique(new_e[:2])
    up = new_p[:, used]
    if used.size > 1:
        dd = np.sqrt(((up[:, :, None] - up[:, None, :]) ** 2).sum(axis=0))
        dd[np.arange(used.size), np.arange(used.size)] = np.inf
        mon.measure("min_vertex_separation", float(dd.min()))
        if dd.min() <= 1e-6:
            mon.count("outputs_with_coincident_vertices_of_distinct_index")

    # geometric incidence: which output edges lie on which input
    A = [np.array(s[0], dtype=float) for s in segs]
    B = [np.array(s[1], dtype=float) for s in segs]
    on = [[] for _ in range(n_in)]          # per input: list of (tmin, tmax, edge index)
    lies_on_any = np.zeros(m, dtype=bool)
    for j in range(m):
        q0, q1 = new_p[:, new_e[0, j]], new_p[:, new_e[1, j]]
        for s in range(n_in):
            d0, t0 = _dist_point_segment(q0, A[s], B[s])
            if d0 > TOL:
                continue
            d1, t1 = _dist_point_segment(q1, A[s], B[s])
            if d1 > TOL:
                continue
            on[s].append((min(t0, t1), max(t0, t1), j))
            lies_on_any[j] = True
            mon.measure("edge_offline_distance", max(d0, d1))
    if not lies_on_any.all():
        bad = np.flatnonzero(~lies_on_any)
        mon.violation("split:edge-not-inside-any-input",
                      {"edges": [new_p[:, new_e[:2, j]].T.tolist() for j in bad[:5]]})

    # tiling of every input
    n_pieces_expected = 0
    for s in range(n_in):
        exp = [(float(a), float(b)) for a, b in zip(breaks[s][:-1], breaks[s][1:])]
        n_pieces_expected += len(exp)
        got = sorted((a, b) for a, b, _ in on[s])
        mon.count("input_segments_tiled")
        mon.count("breakpoints_expected", len(breaks[s]) - 2)
        ok = len(got) == len(exp) and all(
            abs(g[0] - x[0]) <= TOL and abs(g[1] - x[1]) <= TOL for g, x in zip(got, exp))
        if ok:
            if exp:
                mon.measure("tiling_parameter_error",
                            max(max(abs(g[0] - x[0]), abs(g[1] - x[1])) for g, x in zip(got, exp)))
            continue
        # classify
        gset = [(round(a, 7), round(b, 7)) for a, b in got]
        xset = [(round(a, 7), round(b, 7)) for a, b in exp]
        missing = [x for x in xset if x not in gset]
        extra = [g for g in gset if g not in xset]
        if len(gset) != len(set(gset)):
            mech = "split:piece-duplicated-on-input"
        elif missing and any(g[0] <= x[0] + 1e-7 and g[1] >= x[1] - 1e-7 for g in extra for x in missing):
            mech = "split:missing-breakpoint"      # a piece spans an exact meeting point
        elif missing and not extra:
            mech = "split:input-not-covered"
        elif extra and not missing:
            mech = "split:spurious-piece"
        else:
            mech = "split:tiling-mismatch"
        mon.violation(mech, {"input": s, "segment": [list(segs[s][0]), list(segs[s][1])],
                             "expected_intervals": [[str(a), str(b)] for a, b in
                                                    zip(breaks[s][:-1], breaks[s][1:])],
                             "got_intervals": got})
    mon.measure("pieces_expected_per_set", n_pieces_expected)

    # mapping and tags
    for j in range(m):
        s = int(argsort[j])
        if not (0 <= s < n_in):
            mon.violation("split:mapping-out-of-range", {"edge": j, "mapped": s})
            continue
        if not any(jj == j for _, _, jj in on[s]):
            mon.violation("split:edge-not-on-mapped-input",
                          {"edge": new_p[:, new_e[:2, j]].T.tolist(), "mapped_input": s,
                           "segment": [list(segs[s][0]), list(segs[s][1])]})
        if not np.array_equal(new_e[2:, j], e0[2:, s]):
            mon.violation("split:tags-not-inherited",
                          {"edge": j, "tags": new_e[2:, j].tolist(), "input_tags": e0[2:, s].tolist()})
        mon.count("mapping_entries_checked")

    # duplicates removed (overlapping inputs): sum over inputs of pieces - unique edges
    total_pieces = sum(len(x) for x in on)
    mon.count("edges_removed_as_duplicates", max(0, total_pieces - m))

    # tag_info (third return value): observed, not asserted
    try:
        t_all, all2u = tag_info
        mon.count("tag_info_entries", int(np.asarray(all2u).size))
    except Exception:  # noqa: BLE001
        mon.count("tag_info_unreadable")
