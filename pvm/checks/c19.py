"""C19 Computed grid geometry satisfies the divergence theorem.

Monitor: after ``compute_geometry()`` on a generated grid the geometric attributes are
read at the public boundary and decided by closed-form identities (invariant monitor at
a quiescent point; reference = the domain measure known by construction and the
divergence theorem for the fields 1, x and x_i x).
"""
from __future__ import annotations

import numpy as np
import scipy.sparse as sps

from pvm.gen import grids as gg

PROP = "C19"
N = {"quick": 250, "thorough": 20000}
WORKERS = {"quick": 4, "thorough": 16}
RULE = ("seeded recipes (Cartesian / tensor / structured+Delaunay triangles / tetrahedra / "
        "mixed triangle-quadrilateral polygons / prism+hexahedron extrusions / thin L-shaped "
        "non-convex cells / geometrically graded 1-D grids), optionally "
        "node-perturbed (boundary nodes stay in their plane), affinely mapped, rigidly "
        "embedded in 3-D, optionally with reversed face-node order on some faces "
        "(orientation fallback); non-trivial = at least 2 cells; distinct = recipe hash")
REACH = [
    ("grids/grid.py", "Grid._compute_geometry_1d"),
    ("grids/grid.py", "Grid._compute_geometry_2d"),
    ("grids/grid.py", "Grid._compute_geometry_3d"),
]
REACH_LINES = [
    ("grids/grid.py", "return pp.map_geometry.compute_normal(self.nodes)"),
    ("grids/grid.py", "subsimplex_volumes = np.sqrt(np.square(subsimplex_normals).sum(axis=0))"),
]
REQUIRED = {"grids_checked": 20, "nonconvex_grids": 3, "cells_checked": 100, "faces_normal_length": 100,
            "cells_centroid_identity": 50}
ASSUMPTIONS = [
    "domain measure of a recipe is known by construction (box, affine determinant)",
    "identities involving face centres are asserted only on grids with planar faces",
    "cells are convex (generator's own convexity predicate), as the fallback path requires",
]
TOL = 1e-10


def floor(tier):
    out = [{"grid": r, "flip": 0} for r in gg.floor_recipes()]
    # non-convex cells (oriented path only) and strongly graded 1-D grids
    out += [{"grid": r, "flip": 0} for r in gg.floor_extra()]
    # micrometre-scale perturbed quadrilateral / hexahedral / triangle grids
    for k, (kind, dim, n) in enumerate([("cart", 2, [6, 5]), ("tensor", 2, [4, 4]),
                                        ("tri", 2, [3, 3]), ("cart", 3, [2, 2, 2]),
                                        ("cart", 1, [5])]):
        out.append({"grid": {"kind": kind, "dim": dim, "n": n, "phys": [1e-3] * dim,
                             "tseed": 3 + k, "perturb": 0.15, "pseed": 20 + k}, "flip": 0})
    # orientation fallback: reversed node order on some faces of 2-D grids
    out += [{"grid": r, "flip": 3 + k} for k, r in enumerate(gg.floor_recipes(dims=(2,)))]
    return out


def generate(rng, tier, i):
    if rng.random() < 0.15:
        r = gg.random_recipe(rng, dims=(1, 2), kinds=("graded", "nonconvex"), rigid="embedded")
    else:
        r = gg.random_recipe(rng, rigid="embedded", scales=(1e-4, 1e-3, 1e3))
    flip = 0
    if r["dim"] == 2 and gg.convex(r) and rng.random() < 0.35:
        flip = int(rng.integers(1, 2**31))
    return {"grid": r, "flip": flip}


def _flip_faces(g, seed):
    """Reverse the node order of a random subset of faces (2-D)."""
    rng = np.random.default_rng(seed)
    fn = g.face_nodes.tocsc(copy=True)
    ind = fn.indices.copy()
    faces = np.flatnonzero(rng.random(g.num_faces) < 0.4)
    if faces.size == 0:
        faces = np.array([0])
    for f in faces:
        a = fn.indptr[f]
        ind[a], ind[a + 1] = ind[a + 1], ind[a]
    g.face_nodes = sps.csc_matrix((fn.data, ind, fn.indptr), shape=fn.shape)
    return faces.size


def check(case, mon):
    r = case["grid"]
    g = gg.build(r, compute_geometry=False)
    dim = g.dim
    if case.get("flip"):
        nflip = _flip_faces(g, case["flip"])
        mon.count("faces_reversed", nflip)
        mon.klass("flipped")
    g.compute_geometry()
    mon.count("grids_checked")
    mon.klass(f"{r['kind']}{dim}d" + ("+perturb" if r.get("perturb") else "")
              + ("+affine" if r.get("affine") is not None else "")
              + ("+rigid" if r.get("rigid") else ""))
    mon.nontrivial(g.num_cells >= 2)
    if max(r["phys"]) < 1e-2 or max(r["phys"]) > 1e2:
        mon.klass("size-far-from-one")
        mon.count("grids_with_size_far_from_one")
    nc = g.num_cells
    V = g.cell_volumes
    h = float(np.max(V)) ** (1.0 / dim)
    planar = gg.planar(r)

    # (1) positive volumes, sum = domain measure
    mon.count("cells_checked", nc)
    if not np.all(V > 0):
        mon.violation("nonpositive-volume", {"min": float(V.min())})
    mon.close("sum_volume", V.sum(), gg.measure(r), TOL, "total-volume",
              scale=gg.measure(r))

    # (2) |n_f| == area_f (planar), <= on non-planar faces
    nl = np.linalg.norm(g.face_normals, axis=0)
    mon.count("faces_normal_length", g.num_faces)
    if planar:
        mon.close("normal_length", nl, g.face_areas, TOL, "normal-length-vs-area",
                  scale=float(np.max(g.face_areas)))
    else:
        if np.any(nl > g.face_areas * (1 + 1e-12) + 1e-14):
            mon.violation("normal-longer-than-area", {})

    fi, ci, sgn = sps.find(g.cell_faces)
    n_out = g.face_normals[:, fi] * sgn

    # (3) outward orientation: sign * n . (x_f - x_c) > 0
    d = np.sum(n_out * (g.face_centers[:, fi] - g.cell_centers[:, ci]), axis=0)
    if not gg.convex(r):
        # the centre-to-face test is only meaningful for convex cells; orientation of
        # non-convex cells is pinned by the divergence identities (4)-(6) below
        mon.excluded("non-convex cells: centre-to-face outwardness test not applicable")
        mon.count("nonconvex_grids")
    elif not np.all(d > 0):
        k = int(np.argmin(d))
        mon.violation("normal-not-outward", {"face": int(fi[k]), "cell": int(ci[k]),
                                             "value": float(d[k])})

    # (4) closedness: sum_f sigma n_f = 0 per cell
    S = np.zeros((3, nc))
    for k in range(3):
        S[k] = np.bincount(ci, weights=n_out[k], minlength=nc)
    mon.close("closed_surface", S, np.zeros_like(S), TOL, "cell-normals-do-not-sum-to-zero",
              scale=h ** (dim - 1))

    # (5), (6) divergence theorem for x and x_i x on planar faces
    if planar:
        x0 = g.nodes[:, [0]]
        yf = g.face_centers[:, fi] - x0
        yc = g.cell_centers - x0
        yn = np.sum(yf * n_out, axis=0)
        lhs = np.bincount(ci, weights=yn, minlength=nc)
        mon.close("div_x", lhs, dim * V, TOL, "divergence-identity-x", scale=h ** dim)
        M = np.zeros((3, nc))
        for k in range(3):
            M[k] = np.bincount(ci, weights=yn * yf[k], minlength=nc)
        sc = h ** dim * max(1.0, float(np.max(np.abs(yc))))
        mon.close("div_xx", M, (dim + 1) * V * yc, TOL, "centroid-identity", scale=sc)
        mon.count("cells_centroid_identity", nc)
    else:
        mon.excluded("non-planar faces: centroid identities not asserted")
