"""C02 Operator-tree evaluation matches direct forward-mode evaluation.

Monitor: a generated expression (mini-AST of ``pvm.ref.c01_dual``) is turned into a
``pp.ad.Operator`` tree WITH PYTHON OPERATORS (so plain numbers / scipy matrices on the left
go through the reflected overloads ``Operator.__rmul__`` ..., DenseArray / array-valued
left children through the parser's flipping logic) on a real ``EquationSystem`` over a
mixed-dimensional grid whose state and stored time-step / iterate history carry a unique
fingerprint per (variable, grid, slot).  ``EquationSystem.evaluate(op, derivative=True |
False, state)`` is recorded at the public boundary and decided against

  (b) the same expression evaluated directly on ``AdArray`` objects built from the state
      with Python operators (the comparison named by the property),
  (a) the dense dual-number interpreter (tolerance scales; values of shifted sub-trees).

On a failure the sub-trees are evaluated one by one to find the node whose own operation
fails while its children are fine; that node names the mechanism (``reflected-op:rmul``).
Every ``previous_timestep(k)`` / ``previous_iteration(k)`` sub-tree is also evaluated on
its own: value == stored values at that index, Jacobian without any non-zero.
"""
from __future__ import annotations

import atexit
import hashlib
import json
import math
import os
import shutil
import tempfile
import traceback
from pathlib import Path

import numpy as np

from pvm.ref import c01_dual as R

PROP = "C02"
N = {"quick": 300, "thorough": 20000}
WORKERS = {"quick": 4, "thorough": 16}
TIMEOUT = {"quick": 400, "thorough": 3000}
CASE_TIMEOUT = 120.0
TOL_V = 1e-12
TOL_J = 1e-10

RULE = ("md-grids (2-D/3-D, Cartesian and simplex, 0-2 fractures incl. X/T/L and 0-d points) "
        "with 2-4 variables (cell/face/node dofs, subdomains or interfaces, grid subsets in "
        "shuffled creation order) and 1-2 time-dependent arrays (subdomains, interfaces, "
        "boundary grids); state explicit or taken from the stored iterate; depth-1-5 trees over "
        "Variable, md-variable (all grids / subsets), Scalar, DenseArray, SparseArray "
        "(csr/csc/coo), TimeDependentDenseArray, Projection(.T), ProjectionList, matrix-valued "
        "sub-expressions, pp.ad.Function of the whole C01 library (nested), dt / "
        "time_increment, previous_timestep / previous_iteration with 1-3 steps (nested time "
        "shifts accumulate); every binary operator with a plain float / int / scipy matrix on "
        "the LEFT (reflected overloads) and on the right, DenseArray / array-valued left "
        "children (flipping). Points inside the smooth domain as in C01. Raw ndarray as the "
        "Python-level left operand is excluded (documented unsupported). non-trivial = depth "
        ">= 2 and a non-zero Jacobian; distinct = case hash")

REACH = [
    ("numerics/ad/_ad_parser.py", "AdParser.evaluate"),
    ("numerics/ad/_ad_parser.py", "AdParser._evaluate_single"),
    ("numerics/ad/equation_system.py", "EquationSystem.evaluate"),
    ("numerics/ad/operators.py", "_get_previous_time_or_iterate"),
    ("numerics/ad/operators.py", "Operator._parse_other"),
    ("numerics/ad/operators.py", "TimeDependentOperator.previous_timestep"),
    ("numerics/ad/operators.py", "IterativeOperator.previous_iteration"),
    ("numerics/ad/operators.py", "MixedDimensionalVariable.previous_timestep"),
    ("numerics/ad/operators.py", "MixedDimensionalVariable.previous_iteration"),
    ("numerics/ad/operator_functions.py", "AbstractFunction.__call__"),
    ("numerics/ad/operator_functions.py", "Function.func"),
] + [("numerics/ad/operators.py", "Operator." + o) for o in
     ("__add__", "__radd__", "__sub__", "__rsub__", "__mul__", "__rmul__", "__truediv__",
      "__rtruediv__", "__pow__", "__rpow__", "__matmul__", "__rmatmul__", "__neg__")]
REACH_LINES = [
    # leaves: md-variable at a previous time / iterate, atomic variable at a previous
    # time / iterate, cached leaf
    ("numerics/ad/_ad_parser.py", "vals[sub_dofs] = sub_var.parse(equation_system.mdg)"),
    ("numerics/ad/_ad_parser.py", "return op.parse(equation_system.mdg)"),
    ("numerics/ad/_ad_parser.py", "self._cache[op] = res"),
    # ProjectionList
    ("numerics/ad/_ad_parser.py", "res = [c.parse(equation_system.mdg) for c in op.children]"),
    ("numerics/ad/_ad_parser.py", "res = sum([c @ (child_values[1]) for c in child_values[0]])"),
    # flipping branches: add/sub (and the negation of a flipped subtraction), mul/div/pow
    ("numerics/ad/_ad_parser.py", "flipped = True"),
    ("numerics/ad/_ad_parser.py", "return -res"),
    ("numerics/ad/_ad_parser.py", "assert not isinstance(child_values[1], float)"),
    ("numerics/ad/_ad_parser.py", "return child_values[1].__rtruediv__(child_values[0])"),
    ("numerics/ad/_ad_parser.py", "return child_values[1].__rpow__(child_values[0])"),
    # operator functions
    ("numerics/ad/_ad_parser.py", "res = op.func(*child_values)"),
]
REQUIRED = {
    "trees_evaluated": 100, "evaluate_calls": 400, "nodes_decided": 100,
    "shifted_subtrees_decided": 30, "shift:prev_ts": 10, "shift:prev_it": 10,
    "shift:mdvar": 5, "time_increment_nodes": 10,
    "built:__radd__": 10, "built:__rsub__": 10, "built:__rmul__": 10,
    "built:__rtruediv__": 10, "built:__rpow__": 10, "built:__rmatmul__": 10,
    "left:DenseArray": 30, "left:array-valued-subtree": 30,
    "leaf:mdvar": 30, "leaf:var": 30, "leaf:tdense": 10, "leaf:proj": 10,
    "leaf:projsum": 10, "leaf:sparse": 10, "fn_nodes": 60, "list_evaluations": 50,
}
ASSUMPTIONS = [
    "the dof layout reported by EquationSystem.dofs_of defines which state entries a variable "
    "reads (C05 decides the layout itself)",
    "an md-variable denotes the concatenation of its sub-variables in the order of "
    "md_variable(...).sub_vars (read at the public boundary)",
    "previous_timestep(k) / previous_iteration(k) denote the stored values at the public "
    "time_step_index / iterate_index of the shifted operator, i.e. index k-1 (accumulated over "
    "nested shifts)",
    "defects of AdArray / the function library that appear identically in the direct "
    "forward-mode evaluation belong to C01 and are only counted here",
]
LEVEL_TEXT = ("Operator trees built with Python operators (incl. reflected overloads, "
              "DenseArray-left flipping, time/iterate shifts, projections, wrapped functions) "
              "evaluate through EquationSystem.evaluate to the same value and Jacobian as "
              "direct forward-mode evaluation; shifted sub-trees return the fingerprinted "
              "stored values with an empty Jacobian. Exploration on generated trees and grids.")
TECHNIQUE = "reference-model monitor at EquationSystem.evaluate (direct AdArray + dual numbers)"


# ------------------------------------------------------------------------ process setup
_TMP = None


def warmup():
    """Private working directory (gmsh writes its files into the cwd)."""
    global _TMP
    import porepy  # noqa: F401
    if _TMP is None:
        _TMP = tempfile.mkdtemp(prefix="c02_cwd_")
        os.chdir(_TMP)
        atexit.register(lambda: shutil.rmtree(_TMP, ignore_errors=True))


# --------------------------------------------------------------------------- generation
def _acceptable(setup, tree):
    ref = setup.ref_algebra()
    try:
        with np.errstate(all="ignore"):
            root = R.walk(tree, ref)
    except Exception:
        return False
    from pvm.gen import c01_expr as G
    v = root.v if isinstance(root, R.Dual) else root
    if np.ndim(v) != 1 or not np.all(np.isfinite(v)):
        return False
    for r in ref.results.values():
        if isinstance(r, R.Dual) and not (np.all(np.isfinite(r.J)) and np.all(np.isfinite(r.S))):
            return False
    return ref.kink >= G.KINK and ref.kappa < 1e6


def _make(rng, depth, recipe=None, force=None, prebuilt=None):
    warmup()
    from pvm.gen import c02_setup as S
    for _ in range(20):
        if prebuilt is not None:
            sk, setup = prebuilt
        else:
            sk = S.random_skeleton(rng, recipe)
            try:
                setup = S.Setup(sk)
            except Exception:
                if recipe is not None:
                    raise
                continue
            if recipe is None and (setup.N > 700 or setup.N == 0):
                continue
        gen = S.make_generator(setup, rng)
        if not gen.pool:
            continue
        for _ in range(30):
            sizes = gen.sizes()
            n = int(sizes[int(rng.integers(len(sizes)))])
            try:
                if force is None:
                    r = gen.vec(n, depth)
                else:
                    r = _forced(gen, rng, force, n, depth)
            except RecursionError:
                r = None
            if r is None:
                continue
            tree = r[0]
            if _acceptable(setup, tree):
                case = {k: sk[k] for k in ("mdg", "vars", "tdense", "depth", "seed",
                                           "state_mode")}
                case["tree"] = R.pack_tree(tree)
                return R.plain(case)
    raise RuntimeError("C02 generator could not produce an admissible case")


def _forced(gen, rng, force, n, depth):
    """Floor helper: a tree with a prescribed root."""
    kind = force["kind"]
    ctx = (0, 0)
    if kind in ("lconst", "rconst"):
        a, va, ta = gen.vec(n, depth - 1, ctx)
        side = "l" if kind == "lconst" else "r"
        c = gen._const_for(force["op"], side, [force["ckind"]], n, va)
        if c is None:
            return None
        if side == "l":
            return gen._try_bin(force["op"], c[0], c[1], a, va, "const", ta)
        return gen._try_bin(force["op"], a, va, c[0], c[1], ta, "const")
    if kind == "lmat":
        gen.mat_left = [force["mat"]]
        try:
            return gen._mk_matmul(n, depth, ctx)
        finally:
            gen.mat_left = ["mat", "mat", "sparse", "proj", "projsum", "matexpr"]
    if kind == "larr":          # array-valued sub-tree (shifted variable) on the left
        k = int(rng.integers(1, 4))
        sh = "prev_ts" if rng.random() < 0.5 else "prev_it"
        new = (k, 0) if sh == "prev_ts" else (0, k)
        a, va, ta = gen.vec(n, 0, new, want_ad=False)
        left = ({"op": sh, "k": k, "a": a}, va, "arr")
        b, vb, tb = gen.vec(n, depth - 1, ctx)
        return gen._try_bin(force["op"], left[0], left[1], b, vb, "arr", tb)
    if kind == "shift":
        k = force["k"]
        sh = force["shift"]
        new = (k, 0) if sh == "prev_ts" else (0, k)
        cands = [e for e in gen.pool if e["node"]["op"] == force["leaf"]
                 and e["val"](*new) is not None]
        if not cands:
            return None
        e = cands[int(rng.integers(len(cands)))]
        m = e["size"]
        inner = e["node"], e["val"](*new), "arr"
        if force.get("wrap") and depth > 1:
            # a small expression below the shift
            old = gen.pool
            gen.pool = [e] + [x for x in old if x["size"] == m]
            try:
                inner = gen.vec(m, depth - 1, new, want_ad=False)
            finally:
                gen.pool = old
        node = {"op": sh, "k": k, "a": inner[0]}
        if not gen.shift_ok(node, ctx):
            return None
        cur = gen.leaf_vec(m, ctx, True)
        ops = list(rng.permutation(["add", "sub", "mul"]))
        for op in ops:
            r = gen._try_bin(op, node, inner[1], cur[0], cur[1], "arr", cur[2]) \
                if rng.random() < 0.5 else \
                gen._try_bin(op, cur[0], cur[1], node, inner[1], cur[2], "arr")
            if r is not None:
                return r
        return node, inner[1], "arr"
    if kind == "tinc":
        for _ in range(10):
            r = gen._mk_tinc(n, depth, ctx)
            if r is not None:
                return r
        return None
    if kind == "fn":
        name = force["fn"]
        if name == "l2_norm":
            for _ in range(10):
                r = gen._mk_fn2(n, depth, ctx)
                if r is not None and r[0]["name"] == "l2_norm":
                    return r
            return None
        if name == "maximum":
            for _ in range(20):
                r = gen._mk_fn2(n, depth, ctx)
                if r is not None and r[0]["name"] == "maximum":
                    return r
            return None
        a, va, ta = gen.vec(n, depth - 1, ctx)
        r = gen.apply_unary(name, a, va, ta)
        if r is not None and force.get("nested"):
            r2 = gen.apply_unary(str(rng.choice(["exp", "sin", "tanh", "abs", "arctan"])), *r)
            return r2 or r
        return r
    raise ValueError(kind)


_FLOOR = None


def floor(tier):
    """Forced roots (every reflected overload, DenseArray / array-valued left operand for
    every operator, every shift kind and depth, dt / time_increment, every matrix-like left
    operand of @, every library function) on six fixed skeletons + hand-written cases."""
    global _FLOOR
    if _FLOOR is not None:
        return _FLOOR
    cache = _floor_cache_file()
    try:
        _FLOOR = json.loads(cache.read_text())
        return _FLOOR
    except Exception:  # noqa: BLE001  (no cache yet / unreadable: generate)
        pass
    warmup()
    from pvm.gen import c02_setup as S
    from pvm.gen import mdg as gm
    recipes = gm.floor_recipes()
    use = [recipes[3], recipes[1], recipes[2], recipes[5], recipes[11], recipes[7]]
    forces = []
    for op in ("add", "sub", "mul", "div", "pow"):
        for ck in ("const", "int"):
            forces += [{"kind": "lconst", "op": op, "ckind": ck}] * 6
        forces += [{"kind": "lconst", "op": op, "ckind": "dense"}] * 7
        forces += [{"kind": "lconst", "op": op, "ckind": "scalar"}] * 2
        forces += [{"kind": "larr", "op": op}] * 7
        for ck in ("const", "arr", "dense", "scalar"):
            forces += [{"kind": "rconst", "op": op, "ckind": ck}]
    for m in ("mat", "sparse", "proj", "projsum", "matexpr"):
        forces += [{"kind": "lmat", "mat": m}] * 12
    for sh in ("prev_ts", "prev_it"):
        for k in (1, 2, 3):
            for lf in ("var", "mdvar", "tdense"):
                if lf == "tdense" and sh == "prev_it":
                    continue
                forces += [{"kind": "shift", "shift": sh, "k": k, "leaf": lf},
                           {"kind": "shift", "shift": sh, "k": k, "leaf": lf, "wrap": True}] * 2
    forces += [{"kind": "tinc"}] * 14
    for name in R.ALL_FUNCS:
        forces += [{"kind": "fn", "fn": name}] * 2 + [{"kind": "fn", "fn": name, "nested": True}]
    built = []
    for j, rec in enumerate(use):
        rng = np.random.default_rng([201, j])
        sk = S.random_skeleton(rng, rec)
        sk["state_mode"] = "explicit" if j % 3 else "stored"
        built.append((sk, S.Setup(sk)))
    out = []
    for j, f in enumerate(forces):
        rng = np.random.default_rng([202, j])
        depth = 1 + j % 3
        for t in range(len(built)):
            try:
                out.append(_make(rng, depth, force=f, prebuilt=built[(j + t) % len(built)]))
                break
            except RuntimeError:
                continue
    out += _hand_cases(recipes)
    _FLOOR = json.loads(json.dumps(R.plain(out)))
    try:        # the runner generates the floor before it starts the workers
        tmp = cache.with_suffix(f".{os.getpid()}.tmp")
        tmp.write_text(json.dumps(_FLOOR))
        os.replace(tmp, cache)
    except OSError:
        pass
    return _FLOOR


def _floor_cache_file():
    """Scratch cache of the (deterministic) floor, keyed by the sources that define it."""
    h = hashlib.sha1()
    here = Path(__file__).resolve().parent.parent
    for f in ("checks/c02.py", "gen/c02_setup.py", "gen/c01_expr.py", "gen/mdg.py",
              "ref/c01_dual.py"):
        h.update((here / f).read_bytes())
    return Path(tempfile.gettempdir()) / f"c02_floor_{h.hexdigest()[:16]}.json"


def _hand_cases(recipes):
    """Scalar-valued roots and the exact witnesses of DESIGN section 3."""
    base = {"mdg": recipes[1], "depth": 3, "seed": 11, "state_mode": "explicit",
            "vars": [{"name": "p", "where": "sd", "dof": {"cells": 1}, "grids": [0, 1],
                      "box": [0.5, 2.0]}],
            "tdense": [{"name": "src", "where": "sd", "grids": [0], "box": [0.5, 2.0]}]}
    p = {"op": "mdvar", "v": 0, "gs": None}
    n = 7  # 6 + 1 cells
    eye = {"op": "mat", "fmt": "csr", "shape": [n, n],
           "ijv": [list(range(n)), list(range(n)), [2.0] * n]}
    trees = [
        {"op": "mul", "a": {"op": "const", "v": 2.0}, "b": p},            # 2.0 * p
        {"op": "div", "a": {"op": "const", "v": 2.0}, "b": p},            # 2.0 / p
        {"op": "pow", "a": {"op": "const", "v": 2.0}, "b": p},            # 2.0 ** p
        {"op": "matmul", "a": eye, "b": p},                               # spmatrix @ p
        {"op": "mul", "a": {"op": "int", "v": 3}, "b": p},
        {"op": "add", "a": {"op": "const", "v": 2.0}, "b": p},
        {"op": "sub", "a": {"op": "const", "v": 2.0}, "b": p},
        {"op": "mul", "a": {"op": "scalar", "v": 2.0}, "b": {"op": "scalar", "v": 3.0}},
        {"op": "pow", "a": {"op": "scalar", "v": 2.0}, "b": {"op": "scalar", "v": 0.5}},
        {"op": "sub", "a": {"op": "prev_ts", "k": 1, "a": p}, "b": p},
        {"op": "sub", "a": {"op": "dense", "v": [1.0] * n}, "b": p},
        {"op": "fn", "name": "RegularizedHeaviside", "p": {"eps": 0.1}, "args": [p]},
        {"op": "fn", "name": "RegularizedHeaviside", "p": {"eps": 0.1},
         "args": [{"op": "prev_ts", "k": 1, "a": p}]},
    ]
    out = []
    for t in trees:
        c = {k: (v if k != "vars" else [dict(x) for x in v]) for k, v in base.items()}
        c["tree"] = R.pack_tree(t)
        out.append(c)
    return out


def generate(rng, tier, i):
    depth = int(rng.choice([1, 2, 2, 3, 3, 4, 4, 5]))
    for d in (depth, 2, 1):
        try:
            return _make(rng, d)
        except RuntimeError:
            continue
    return dict(floor(tier)[int(rng.integers(0, 50))])


# --------------------------------------------------------------------------------- check
_PPF = None


def _ppfuncs():
    global _PPF
    if _PPF is None:
        _PPF = R.porepy_funcs()
    return _PPF


def _viol(mon, mechanism, detail=None):
    """Violation + a complete per-mechanism counter (the runner keeps only the first 50
    violating cases of a worker)."""
    mon.count("mechanism:" + mechanism)
    mon.violation(mechanism, detail)


def _fin(x):
    x = float(x)
    return x if math.isfinite(x) else 1e300


def _kind(node, ref):
    """Operand kind of an AST child for labels."""
    op = node["op"]
    if op in ("const", "int"):
        return "num"
    if op == "arr":
        return "ndarray"
    if op == "mat":
        return "spmatrix"
    if op == "scalar":
        return "Scalar"
    if op == "dense":
        return "DenseArray"
    if op == "sparse":
        return "SparseArray"
    if op == "proj":
        return "Projection"
    if op == "projsum":
        return "ProjectionList"
    r = ref.results.get(id(node))
    if isinstance(r, R.Dual):
        return "ad"
    if np.ndim(r) == 2:
        return "matrix-expr"
    if np.ndim(r) == 0:
        return "scalar-expr"
    return "array-expr"


def _label(node, ref):
    op = node["op"]
    if op == "fn":
        return "Function(" + node["name"] + ")"
    if op in R.BIN:
        return f"{op}[{_kind(node['a'], ref)},{_kind(node['b'], ref)}]"
    if op in ("prev_ts", "prev_it"):
        return op
    return op


def _where(exc):
    frames = traceback.extract_tb(exc.__traceback__)
    return next((f"{f.filename.split('/')[-1]}:{f.name}" for f in reversed(frames)
                 if "/porepy/" in f.filename), None)


def _chain_text(exc):
    out = []
    e = exc
    while e is not None and len(out) < 4:
        out.append(f"{type(e).__name__}: {str(e)[:200]}")
        e = e.__cause__ or e.__context__
    return " <- ".join(out)


class _Decider:
    def __init__(self, case, mon, setup, ops, direct, ref):
        self.case, self.mon, self.setup = case, mon, setup
        self.ops, self.direct, self.ref = ops, direct, ref
        self.state = setup.state_arg()
        self.memo = {}
        self.culprits = 0

    # ---- one node: evaluate through the equation system, compare with (b)
    def evaluate(self, node):
        import porepy as pp
        key = id(node)
        if key in self.memo:
            return self.memo[key]
        mon = self.mon
        op = self.ops.results[key]
        es = self.setup.es
        res = {"ok": True, "exc": None, "why": None}
        want = self.direct.results.get(key)
        refr = self.ref.results.get(key)
        try:
            mon.count("evaluate_calls")
            with np.errstate(all="ignore"):
                r1 = es.evaluate(op, derivative=True, state=self.state)
        except Exception as exc:  # noqa: BLE001
            if _where(exc) is None:
                raise
            res.update(ok=False, exc=exc, why="derivative=True raises")
            self.memo[key] = res
            return res
        try:
            mon.count("evaluate_calls")
            with np.errstate(all="ignore"):
                r0 = es.evaluate(op, derivative=False, state=self.state)
        except Exception as exc:  # noqa: BLE001
            if _where(exc) is None:
                raise
            res.update(ok=False, exc=exc, why="derivative=False raises")
            self.memo[key] = res
            return res
        # expected
        if isinstance(want, pp.ad.AdArray):
            wv = want.val
            wj = want.jac.toarray()
        else:
            wv = np.atleast_1d(np.asarray(want, dtype=float))
            wj = np.zeros((wv.size, self.setup.N))
        if isinstance(refr, R.Dual):
            S, A = refr.S, refr.A
            av = refr.v
        else:
            av = np.atleast_1d(np.asarray(refr, dtype=float))
            S, A = np.abs(av), np.zeros((av.size, self.setup.N))
        if not isinstance(r1, pp.ad.AdArray):
            res.update(ok=False, why="type", detail={"got": type(r1).__name__})
            self.memo[key] = res
            return res
        if S.shape != wv.shape:
            S = np.abs(wv)
            A = np.abs(wj)
        gv = np.asarray(r1.val, dtype=float)
        gj = r1.jac.toarray()
        if gv.shape != wv.shape or gj.shape != wj.shape:
            res.update(ok=False, why="shape", detail={
                "val": list(gv.shape), "want": list(wv.shape), "jac": list(gj.shape),
                "want_jac": list(wj.shape)})
            self.memo[key] = res
            return res
        g0 = np.atleast_1d(np.asarray(r0, dtype=float))
        if g0.shape != gv.shape:
            res.update(ok=False, why="value-without-derivative:shape",
                       detail={"got": list(g0.shape), "want": list(gv.shape)})
            self.memo[key] = res
            return res
        rv = R.value_residual(gv, wv, np.maximum(S, np.abs(wv)))
        r0v = R.value_residual(g0, gv, np.maximum(S, np.abs(wv)))
        rj, row = R.jac_residual(gj, wj, np.maximum(A, np.abs(wj)))
        ra = R.value_residual(wv, av, np.maximum(S, np.abs(av))) if av.shape == wv.shape else math.inf
        mon.measure("value_vs_direct", _fin(rv))
        mon.measure("value_with_vs_without_derivative", _fin(r0v))
        mon.measure("jacobian_vs_direct", _fin(rj))
        mon.count("values_bitwise_equal_with_and_without_derivative" if np.array_equal(g0, gv)
                  else "values_roundoff_different_with_and_without_derivative")
        res.update(rv=rv, r0v=r0v, rj=rj, ra=ra, row=row, r1=r1)
        if not rv <= TOL_V:
            k = int(np.argmax(np.abs(gv - wv)))
            res.update(ok=False, why="value", detail={"residual": rv, "index": k,
                                                      "got": gv[k], "want": wv[k]})
        elif not rj <= TOL_J:
            col = int(np.argmax(np.abs(np.nan_to_num(gj[row] - wj[row], nan=np.inf))))
            res.update(ok=False, why="jacobian", detail={
                "residual": rj, "row": row, "col": col, "got": gj[row, col],
                "want": wj[row, col]})
        elif not r0v <= TOL_V:
            k = int(np.argmax(np.abs(g0 - gv)))
            res.update(ok=False, why="value-without-derivative", detail={
                "residual": r0v, "index": k, "without": g0[k], "with": gv[k]})
        self.memo[key] = res
        return res

    def evaluable(self, node):
        """Vector / scalar valued node that exists in the direct evaluation."""
        key = id(node)
        if key not in self.direct.results or key not in self.ops.results:
            return False
        r = self.ref.results.get(key)
        if isinstance(r, R.Dual):
            return True
        if r is None or np.ndim(r) == 2:
            return False
        if node["op"] in ("const", "int", "arr", "mat", "proj", "projsum", "sparse"):
            return False
        return True

    # ---- localisation: the node that fails while its evaluable children are fine
    def decide(self, node):
        res = self.evaluate(node)
        self.mon.count("nodes_decided")
        if res["ok"]:
            return True
        kids = [c for c in R.children(node) if self.evaluable(c)]
        kids_ok = [self.decide(c) for c in kids]
        if not all(kids_ok):
            return False
        self.report(node, res)
        return False

    def report(self, node, res):
        mon = self.mon
        lab = _label(node, self.ref)
        self.culprits += 1
        exc = res.get("exc")
        small = node if R.count_nodes(node) <= 8 else lab
        if exc is None:
            _viol(mon, f"{lab}:{res['why']}", {"node": small, **(res.get("detail") or {})})
            return
        text = _chain_text(exc)
        # (1) reflected operations unknown to the parser
        if "unknown operation Operations.r" in text:
            r = text.split("unknown operation Operations.")[1].split()[0].strip(".,")
            _viol(mon, f"reflected-op:{r}", {"node": small, "error": text[:300],
                                                "where": _where(exc)})
            return
        # (2) a library function that cannot take plain arrays (value without derivative,
        # or all arguments at a previous time step / iterate)
        if "Error while parsing operator function" in text:
            name = text.split("operator function:\n")[1].split("[")[0].strip()
            fnode = next((x for x in R.postorder(node)
                          if x["op"] == "fn" and x["name"] == name), None)
            if fnode is not None:
                p = fnode.get("p", {})
                x = np.full(int(p.get("dim", 1)), 0.5)
                try:
                    with np.errstate(all="ignore"):
                        _ppfuncs()[name](p)(*([x] * len(fnode["args"])))
                    plain_ok = True
                except Exception:  # noqa: BLE001
                    plain_ok = False
                if not plain_ok:
                    _viol(mon, f"{name}:ndarray-argument",
                                  {"node": small, "error": text[:300], "mode": res["why"]})
                    return
        # (3) the direct forward-mode evaluation fails in the same way: C01's business
        if id(node) in self.direct_failed:
            mon.count("direct_forward_mode_raises_too")
            mon.excluded(f"direct forward-mode evaluation raises as well at {lab} (C01)")
            return
        _viol(mon, f"{lab}:raises-{type(exc).__name__}",
                      {"node": small, "error": text[:300], "where": _where(exc),
                       "mode": res["why"]})

    direct_failed = frozenset()


def check(case, mon):
    import porepy as pp
    warmup()
    from pvm.gen import c02_setup as S

    sk = {k: case[k] for k in ("mdg", "vars", "tdense", "depth", "seed", "state_mode")}
    tree = R.tree_of(case)
    setup = S.Setup(sk)
    mon.klass(f"{sk['mdg']['dim']}d-{sk['mdg']['mesh']}-{len(sk['mdg']['fractures'])}frac")
    mon.klass("state:" + sk["state_mode"])
    dep = R.depth(tree)
    mon.klass(f"depth{min(dep, 8)}")
    mon.measure("num_dofs", setup.N)

    # (h) history of a Scalar leaf: its value is changed with set_value between two
    # evaluations (what adaptive time stepping does with the dt scalar) and then evaluated
    # next to a fresh Scalar holding the OLD value - each leaf must contribute its own
    # current value
    try:
        X = setup.es.md_variable(sk["vars"][0]["name"])
    except Exception:  # noqa: BLE001
        X = None
    if X is not None:
        st = setup.state.copy()
        x0 = setup.es.evaluate(X, derivative=True, state=st)
        sca = pp.ad.Scalar(2.5)
        setup.es.evaluate(sca * X, derivative=False, state=st)
        sca.set_value(4.0)
        got = setup.es.evaluate(sca * X + pp.ad.Scalar(2.5) * X, derivative=True, state=st)
        mon.count("scalar_set_value_histories")
        mon.close("scalar_history_value", got.val, 6.5 * x0.val, 1e-12,
                  "scalar-leaf:stale-value-after-set_value",
                  scale=max(1.0, float(np.max(np.abs(x0.val))) if x0.val.size else 1.0))
        if x0.val.size:
            mon.close("scalar_history_jacobian", got.jac.toarray(), 6.5 * x0.jac.toarray(), 1e-12,
                      "scalar-leaf:stale-value-after-set_value", scale=6.5)

    # (a) dual numbers
    ref = setup.ref_algebra()
    with np.errstate(all="ignore"):
        rroot = R.walk(tree, ref)
    if ref.kink < 1e-2:
        mon.excluded("point closer than 1e-2 to a kink")
        return
    mon.nontrivial(dep >= 2 and isinstance(rroot, R.Dual) and bool(np.any(rroot.J != 0)))

    # tree statistics
    for nd in R.postorder(tree):
        op = nd["op"]
        if op in ("var", "mdvar", "tdense", "proj", "projsum", "sparse", "scalar", "dense"):
            mon.count("leaf:" + op)
        if op == "fn":
            mon.count("fn_nodes")
            mon.count("fn:" + nd["name"])
        if op in ("tinc", "dt"):
            mon.count("time_increment_nodes")
        if op in ("prev_ts", "prev_it"):
            mon.count("shift:" + op)
            mon.count(f"shift:{op}:k={nd['k']}")
            if any(x["op"] == "mdvar" for x in R.postorder(nd)):
                mon.count("shift:mdvar")
        if op in R.BIN:
            lk = _kind(nd["a"], ref)
            rk = _kind(nd["b"], ref)
            if lk == "DenseArray":
                mon.count("left:DenseArray")
            if lk == "array-expr":
                mon.count("left:array-valued-subtree")
            if lk in ("num", "spmatrix"):
                mon.count("left:plain-python:" + op)
            mon.count(f"node:{op}[{lk},{rk}]")

    # (1) the operator tree, built with Python operators
    def on_build(label):
        name = label.split("[")[0]
        if name.startswith("__"):
            mon.count("built:" + name)
        else:
            mon.count("built:" + name)

    ops = setup.operator_algebra(_ppfuncs(), on_build)
    R.walk(tree, ops)       # an exception here has its innermost frame in porepy -> violation
    mon.count("trees_built")

    # (2) direct forward-mode evaluation
    direct = setup.adarray_algebra(_ppfuncs(), lambda label: mon.count("direct:" + label.split("[")[0]))
    direct_failed = set()
    try:
        with np.errstate(all="ignore"):
            R.walk(tree, direct)
    except Exception as exc:  # noqa: BLE001
        if _where(exc) is None:
            raise
        # everything above the failing node cannot be decided against (b)
        bad = direct.failed
        direct_failed.add(id(bad))
        mon.count("direct_forward_mode_raised")

    dec = _Decider(case, mon, setup, ops, direct, ref)
    dec.direct_failed = direct_failed

    if id(tree) in direct.results:
        ok = dec.decide(tree)
        mon.count("trees_evaluated")
        r = dec.memo[id(tree)]
        if ok and isinstance(rroot, R.Dual) and r.get("ra") is not None:
            mon.measure("direct_vs_dual_reference_value", _fin(r["ra"]))
        kids = [c for c in R.children(tree) if dec.evaluable(c)]
        if ok and kids:
            # evaluate(list of operators) == the single evaluations (shared parser cache)
            kid = kids[-1]
            rk = dec.evaluate(kid)
            if rk["ok"]:
                lst = setup.es.evaluate([ops.results[id(tree)], ops.results[id(kid)],
                                         ops.results[id(tree)]], derivative=True,
                                        state=dec.state)
                mon.count("list_evaluations")
                same = (isinstance(lst, list) and len(lst) == 3
                        and all(isinstance(x, pp.ad.AdArray) for x in lst))
                if same:
                    for x, y in ((lst[0], r["r1"]), (lst[1], rk["r1"]), (lst[2], r["r1"])):
                        same = same and np.array_equal(x.val, y.val, equal_nan=True) \
                            and x.jac.shape == y.jac.shape \
                            and np.array_equal(x.jac.toarray(), y.jac.toarray(), equal_nan=True)
                if not same:
                    _viol(mon, "evaluate-list:differs-from-single-evaluation",
                                  {"root": _label(tree, ref)})
    else:
        # the direct evaluation failed somewhere: decide the maximal sub-trees that it
        # could evaluate, and the failing node itself
        def rec(nd):
            if id(nd) in direct.results and dec.evaluable(nd):
                dec.decide(nd)
                return
            if id(nd) in direct_failed:
                res = {"ok": False, "exc": None}
                try:
                    setup.es.evaluate(ops.results[id(nd)], derivative=True, state=dec.state)
                    mon.count("parser_succeeds_where_direct_raises")
                except Exception as exc:  # noqa: BLE001
                    if _where(exc) is None:
                        raise
                    res = {"ok": False, "exc": exc, "why": "derivative=True raises"}
                    dec.report(nd, res)
            for c in R.children(nd):
                rec(c)
        rec(tree)
        mon.count("trees_partially_evaluated")

    # (3) every shifted sub-tree on its own: stored values, empty Jacobian
    for nd in R.postorder(tree):
        if nd["op"] not in ("prev_ts", "prev_it"):
            continue
        if id(nd) not in ref.results or id(nd) not in ops.results:
            continue
        simple = nd["a"]["op"] in ("var", "mdvar", "tdense")
        want = np.atleast_1d(np.asarray(ref.results[id(nd)], dtype=float))
        wb = direct.results.get(id(nd))
        if not simple and isinstance(wb, np.ndarray) and wb.shape == want.shape:
            # composite shifted sub-tree: the direct evaluation with plain arrays performs
            # the same floating-point operations as the parser (leaves: own fingerprints)
            mon.measure("shifted_subtree_direct_vs_reference",
                        _fin(R.value_residual(wb, want, np.abs(want) + np.max(np.abs(want),
                                                                              initial=0.0))))
            want = np.asarray(wb, dtype=float)
        try:
            with np.errstate(all="ignore"):
                got = setup.es.evaluate(ops.results[id(nd)], derivative=True, state=dec.state)
        except Exception as exc:  # noqa: BLE001
            if _where(exc) is None:
                raise
            if dec.memo.get(id(nd), {}).get("ok", True) is False or dec.culprits:
                continue            # already reported by the localisation
            res = {"ok": False, "exc": exc, "why": "derivative=True raises"}
            ok_kids = all(dec.decide(c) for c in R.children(nd) if dec.evaluable(c))
            if ok_kids:
                dec.report(nd, res)
            continue
        mon.count("shifted_subtrees_decided")
        if not isinstance(got, pp.ad.AdArray):
            _viol(mon, f"{nd['op']}:type", {"got": type(got).__name__})
            continue
        scale = np.abs(want) if simple else np.full(want.shape, float(np.max(np.abs(want),
                                                                            initial=0.0)))
        rv = R.value_residual(np.asarray(got.val), want, scale + 1e-300)
        mon.measure("shifted_subtree_value", _fin(rv))
        if simple:
            mon.count("shifted_leaf_fingerprints_compared")
        if not rv <= (0.0 if simple else 1e-10):
            _viol(mon, f"{nd['op']}:stored-values" + (":leaf" if simple else ""),
                          {"k": nd["k"], "residual": rv,
                           "node": nd if R.count_nodes(nd) <= 8 else nd["op"]})
            continue
        nnz = int(got.jac.count_nonzero())
        mon.measure("shifted_subtree_jacobian_nnz", nnz)
        if nnz != 0 or got.jac.shape != (want.size, setup.N):
            _viol(mon, f"{nd['op']}:jacobian-not-zero",
                          {"k": nd["k"], "nnz": nnz, "shape": list(got.jac.shape)})
