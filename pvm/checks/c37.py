"""C37 Block-diagonal inversion returns the true inverse.

Reference-model monitor: generated block-diagonal matrices (block sizes 1-6, condition
number <= 1e3, full and structurally sparse blocks, csr and csc, explicit zeros and
unsorted indices inside the blocks) are inverted by ``invert_diagonal_blocks`` through
the python and the numba path; row/column-permuted copies are handed to
``generate_permutation_to_block_diag_matrix`` and ``invert_permuted_block_diag_matrix``.
The oracle is dense linear algebra: ``inv(A) A == I``, ``A inv(A) == I``, agreement with
``numpy.linalg.inv``, and a dense check that the permuted matrix is block diagonal with
the returned (square) block sizes.
"""
from __future__ import annotations

import numpy as np
import scipy.sparse as sps

PROP = "C37"
N = {"quick": 200, "thorough": 4000}
WORKERS = {"quick": 3, "thorough": 16}
TIMEOUT = {"quick": 900, "thorough": 700}
CASE_TIMEOUT = 120.0
RULE = ("seeded block structures: 1-6 blocks of size 1-6 (cond <= 1e3, overall scale "
        "1e-2..1e2), full or structurally sparse blocks, csr/csc storage, optional "
        "explicit zeros / unsorted indices inside the blocks, optional zero entries in "
        "the size array; kind 'direct' = invert_diagonal_blocks (python, numba, default), "
        "kind 'permuted' = random row and column permutation -> "
        "generate_permutation_to_block_diag_matrix + invert_permuted_block_diag_matrix "
        "(optionally with stored zeros outside the blocks); non-trivial = at least two "
        "blocks and one block of size >= 2; distinct = case hash")
_MO = "numerics/linalg/matrix_operations.py"
REACH = [
    (_MO, "invert_diagonal_blocks"),
    (_MO, "invert_diagonal_blocks.<locals>.invert_diagonal_blocks_python"),
    (_MO, "invert_diagonal_blocks.<locals>.invert_diagonal_blocks_numba"),
    (_MO, "block_diag_matrix"),
    (_MO, "generate_permutation_to_block_diag_matrix"),
    (_MO, "invert_permuted_block_diag_matrix"),
]
REACH_LINES = [
    (_MO, "block_sizes = np.array([num_rows], dtype=idx_dtype)"),   # single component
    (_MO, "block_sizes_.append(len(eq_rows_in_block))"),            # several components
]
REQUIRED = {"inversions:python": 10, "inversions:numba": 10, "inversions:default": 5,
            "inversions:permuted": 10, "permutations_checked": 10,
            "rejections_observed": 2}
ASSUMPTIONS = [
    "blocks have 2-norm condition number <= 1e3 (checked by the generator)",
    "stored entries of a matrix handed to invert_diagonal_blocks lie inside its blocks",
    "the permuted inverter is called with the permutation computed from the same matrix",
]
LEVEL_TEXT = ("Block inversion (python and numba) and the permuted inverter returned the "
              "inverse within 1e-9 on the generated block structures; the computed "
              "permutations exposed square diagonal blocks (exploration).")
TECHNIQUE = "dense linear-algebra reference, residual of A*inv(A)"
TOL = 1e-9


# ------------------------------------------------------------------------- generator
def _block(rng, s, style):
    scale = 1.0
    if s == 1:
        return np.array([[float(rng.choice([-1, 1]) * rng.uniform(1, 3))]])
    if style == "full":
        for _ in range(20):
            q1, _ = np.linalg.qr(rng.normal(size=(s, s)))
            q2, _ = np.linalg.qr(rng.normal(size=(s, s)))
            cond = 10 ** rng.uniform(0, 2.9)
            sv = np.geomspace(1.0, cond, s)
            M = (q1 * sv) @ q2.T
            if np.all(np.abs(M) > 1e-6):
                return M * scale
        return M + 1e-3
    # structurally sparse: scaled permutation plus sparse fill-in
    p = rng.permutation(s)
    base = np.zeros((s, s))
    base[np.arange(s), p] = rng.choice([-1, 1], size=s) * rng.uniform(1, 3, size=s)
    fill = 0.6
    for _ in range(20):
        mask = rng.random((s, s)) < 0.35
        M = base + mask * rng.uniform(-fill, fill, size=(s, s)) * (base == 0)
        if np.linalg.cond(M) <= 1e3:
            return M
        fill *= 0.6
    return base


def build_dense(case):
    rng = np.random.default_rng([37, int(case["seed"])])
    sizes = [int(v) for v in case["sizes"]]
    n = sum(sizes)
    D = np.zeros((n, n))
    inblock = np.zeros((n, n), dtype=bool)
    o = 0
    for s in sizes:
        D[o:o + s, o:o + s] = _block(rng, s, case["style"])
        inblock[o:o + s, o:o + s] = True
        o += s
    D *= float(case.get("scale", 1.0))
    return D, inblock, rng


def to_storage(D, stored, fmt, unsorted, rng):
    """csr/csc matrix storing exactly the positions flagged in ``stored``."""
    n = D.shape[0]
    indptr, indices, data = [0], [], []
    for line in range(n):
        pos = np.flatnonzero(stored[line, :] if fmt == "csr" else stored[:, line])
        if unsorted and pos.size > 1:
            pos = rng.permutation(pos)
        for j in pos:
            indices.append(int(j))
            data.append(D[line, j] if fmt == "csr" else D[j, line])
        indptr.append(len(indices))
    cls = sps.csr_matrix if fmt == "csr" else sps.csc_matrix
    return cls((np.array(data, dtype=float), np.array(indices, dtype=np.int32),
                np.array(indptr, dtype=np.int32)), shape=(n, n))


def _case(rng, kind=None):
    nb = int(rng.integers(1, 7))
    sizes = [int(v) for v in rng.integers(1, 7, size=nb)]
    kind = kind or str(rng.choice(["direct", "permuted"], p=[0.55, 0.45]))
    c = {"kind": kind, "sizes": sizes, "seed": int(rng.integers(0, 2**31)),
         "fmt": str(rng.choice(["csr", "csc"])),
         "style": str(rng.choice(["full", "sparse"])),
         # overall scale: moderate, or (15 %) extreme - inversion is scale invariant, any
         # absolute threshold in the block search / inverter is not
         "scale": float(10.0 ** int(rng.integers(-2, 3))) if rng.random() < 0.85
         else float(10.0 ** int(rng.choice([-18, -16, -12, -9, 9, 12, 16]))),
         "explicit_zeros": bool(rng.random() < 0.4),
         "unsorted": bool(rng.random() < 0.3),
         "zero_sizes": bool(rng.random() < 0.2),
         "offblock_zeros": 0,
         # the default path is the numba path; every numba call re-jits (~0.2-1 s)
         "default_path": bool(rng.random() < 0.25)}
    if kind == "permuted":
        c["unsorted"] = False
        c["zero_sizes"] = False
        if rng.random() < 0.25:
            c["offblock_zeros"] = int(rng.integers(1, 4))
    return c


def generate(rng, tier, i):
    return _case(rng)


def floor(tier):
    base = {"seed": 1, "fmt": "csr", "style": "full", "scale": 1.0,
            "explicit_zeros": False, "unsorted": False, "zero_sizes": False,
            "offblock_zeros": 0, "default_path": False}
    out = []
    for kind in ("direct", "permuted"):
        for fmt in ("csr", "csc"):
            for style in ("full", "sparse"):
                for sizes in ([1], [2, 3], [1, 1, 2, 2], [6, 1, 4], [3]):
                    out.append(dict(base, kind=kind, fmt=fmt, style=style, sizes=sizes,
                                    seed=len(out) + 1,
                                    default_path=(style == "full"),
                                    explicit_zeros=(style == "sparse")))
    out.append(dict(base, kind="direct", sizes=[2, 3, 2], style="sparse", unsorted=True,
                    explicit_zeros=True, seed=101))
    out.append(dict(base, kind="direct", sizes=[2, 3, 2], zero_sizes=True, seed=102))
    out.append(dict(base, kind="direct", sizes=[4, 4, 4, 4, 4, 4], fmt="csc", seed=103))
    for k, sc in enumerate([1e-16, 1e-12, 1e12, 1e-18]):
        out.append(dict(base, kind="permuted", sizes=[2, 3, 1], scale=sc, seed=110 + k,
                        fmt=("csr", "csc")[k % 2]))
        out.append(dict(base, kind="direct", sizes=[3, 2], scale=sc, seed=120 + k))
    out.append(dict(base, kind="permuted", sizes=[2, 2], offblock_zeros=1, seed=104))
    out.append(dict(base, kind="permuted", sizes=[3, 1, 2], offblock_zeros=2, seed=105,
                    fmt="csc"))
    return out


def warmup():
    """Compile (or load) the numba kernel before reach counting.

    After a change of matrix_operations.py the on-disk numba cache is stale and every
    worker would compile the kernel at the same time; a file lock lets one worker compile
    and the others load the fresh cache."""
    import fcntl
    import os
    import porepy as pp
    A = sps.csr_matrix(np.array([[2.0, 1.0], [1.0, 3.0]]))
    lock = "/tmp/c37_numba_warmup.lock"
    with open(lock, "w") as fh:
        fcntl.flock(fh, fcntl.LOCK_EX)
        try:
            pp.matrix_operations.invert_diagonal_blocks(A, np.array([2], dtype=np.int64),
                                                        method="numba")
        finally:
            fcntl.flock(fh, fcntl.LOCK_UN)
    try:
        os.unlink(lock)
    except OSError:
        pass


# ----------------------------------------------------------------------------- check
def _residuals(mon, tag, iA, D, Dinv, mech):
    n = D.shape[0]
    try:
        X = iA.toarray()
    except Exception as e:
        mon.violation(mech, {"what": f"{tag}: result storage unusable", "error": repr(e)})
        return False
    if X.shape != D.shape:
        mon.violation(mech, {"what": f"{tag}: shape", "got": list(X.shape)})
        return False
    if not np.all(np.isfinite(X)):
        mon.violation(mech, {"what": f"{tag}: non-finite entries"})
        return False
    eye = np.eye(n)
    ok = mon.close(f"{tag}:inv*A-I", X @ D, eye, TOL, mech, scale=1.0)
    ok &= mon.close(f"{tag}:A*inv-I", D @ X, eye, TOL, mech, scale=1.0)
    ok &= mon.close(f"{tag}:inv-vs-numpy", X, Dinv, TOL, mech,
                    scale=float(np.max(np.abs(Dinv))))
    return bool(ok)


def _permuted_inverse_python_backend(mo, A, rp, cp, bs):
    """The real ``invert_permuted_block_diag_matrix`` with its block inverter forced to
    the bounds-checked python back-end (fault injection: forced inverter back-end).

    Used first when stored zeros lie outside the computed blocks: the numba kernel does
    no bounds checking and has been observed to corrupt the heap on such input
    ('free(): invalid pointer'), which would take the whole worker down."""
    orig = mo.invert_diagonal_blocks

    def forced(mat, s, method=None):
        return orig(mat, s, method="python")

    mo.invert_diagonal_blocks = forced
    try:
        return mo.invert_permuted_block_diag_matrix(A, rp, cp, bs)
    finally:
        mo.invert_diagonal_blocks = orig


def _direct(case, mon, mo):
    D, inblock, rng = build_dense(case)
    stored = D != 0
    if case["explicit_zeros"]:
        stored = stored | (inblock & (rng.random(D.shape) < 0.3))
    A = to_storage(D, stored, case["fmt"], case["unsorted"], rng)
    mon.count("explicit_zero_entries", int(np.sum(stored & (D == 0))))
    sizes = [int(v) for v in case["sizes"]]
    if case["zero_sizes"]:
        k = int(rng.integers(0, len(sizes) + 1))
        sizes = sizes[:k] + [0] + sizes[k:] + ([0] if rng.random() < 0.5 else [])
        mon.count("size_arrays_with_zero_entries")
    s = np.asarray(sizes, dtype=np.int64)
    Dinv = np.linalg.inv(D)
    data0 = A.data.copy()
    methods = ("python", "numba", None) if case.get("default_path") else ("python", "numba")
    for method in methods:
        name = method or "default"
        iA = mo.invert_diagonal_blocks(A, s.copy(), method=method)
        mon.count(f"inversions:{name}")
        _residuals(mon, name, iA, D, Dinv, f"block-inverse:{name}-path")
        if not (sps.isspmatrix_csr(iA) or sps.isspmatrix_csc(iA)):
            mon.violation("block-inverse:result-format", {"got": type(iA).__name__})
    if not np.array_equal(A.data, data0):
        mon.violation("block-inverse:argument-modified", {})
    try:
        mo.invert_diagonal_blocks(A, s.copy(), method="no-such-backend")
        mon.violation("block-inverse:unknown-method-accepted", {})
    except ValueError:
        mon.count("rejections_observed")


def _permuted(case, mon, mo):
    D, inblock, rng = build_dense(case)
    n = D.shape[0]
    rp0, cp0 = rng.permutation(n), rng.permutation(n)
    Dp = D[rp0][:, cp0]
    stored = Dp != 0
    inb = inblock[rp0][:, cp0]
    if case["explicit_zeros"]:
        stored = stored | (inb & (rng.random(D.shape) < 0.3))
    nz_off = int(case.get("offblock_zeros", 0))
    off_added = 0
    if nz_off:
        cand = np.argwhere(~inb)
        if len(cand):
            for k in rng.choice(len(cand), size=min(nz_off, len(cand)), replace=False):
                stored[tuple(cand[int(k)])] = True
                off_added += 1
    A = to_storage(Dp, stored, case["fmt"], False, rng)
    data0 = A.data.copy()
    rp, cp, bs = mo.generate_permutation_to_block_diag_matrix(A)
    mon.count("permutations_checked")
    rp, cp, bs = np.asarray(rp), np.asarray(cp), np.asarray(bs)
    ok = (sorted(rp.tolist()) == list(range(n)) and sorted(cp.tolist()) == list(range(n))
          and np.all(bs > 0) and int(bs.sum()) == n)
    if not ok:
        mon.violation("permutation:not-a-permutation-or-sizes-do-not-sum",
                      {"row_perm": rp, "col_perm": cp, "block_sizes": bs})
        return
    P = Dp[rp][:, cp]
    mask = np.zeros((n, n), dtype=bool)
    o = 0
    for s in bs:
        mask[o:o + s, o:o + s] = True
        o += int(s)
    # stored zeros that lie outside the computed blocks (the pattern analysis ignores
    # stored zeros, the inverter receives them): separate class and mechanism
    n_off = int(np.count_nonzero(stored[rp][:, cp] & ~mask))
    offblock = n_off > 0
    if offblock:
        mon.klass("permuted:stored-zero-outside-computed-blocks")
        mon.count("offblock_stored_zeros", n_off)
    if np.any(P[~mask] != 0):
        mon.violation("permutation:not-block-diagonal",
                      {"block_sizes": bs, "offending": int(np.count_nonzero(P[~mask]))})
    o = 0
    for s in bs:
        blk = P[o:o + s, o:o + s]
        if np.linalg.matrix_rank(blk) < s:
            mon.violation("permutation:singular-diagonal-block", {"block_sizes": bs})
            break
        o += int(s)
    mon.measure("number_of_blocks_found", len(bs))
    if case["style"] == "full":
        # every block is a complete bipartite graph: components are exactly the blocks
        if sorted(int(v) for v in bs) != sorted(int(v) for v in case["sizes"]):
            mon.violation("permutation:block-sizes-differ-from-construction",
                          {"got": bs, "want": case["sizes"]})
    Dinv = np.linalg.inv(Dp)
    mech = ("permuted-inverse:stored-zero-outside-blocks" if offblock
            else "permuted-inverse")
    if offblock:
        # safe rehearsal with the python back-end; the numba path only runs if it passes
        try:
            iA = _permuted_inverse_python_backend(mo, A, rp, cp, bs)
        except Exception as e:  # noqa: BLE001
            mon.violation(mech, {"what": "exception (python back-end forced)",
                                 "error": repr(e)[:300]})
            return
        mon.count("inversions:permuted_forced_python")
        if not _residuals(mon, "permuted-forced-python", iA, Dp, Dinv, mech):
            mon.excluded("numba path of the permuted inverter not run: stored zeros "
                         "outside the blocks reach the kernel (memory-unsafe)")
            return
    try:
        iA = mo.invert_permuted_block_diag_matrix(A, rp, cp, bs)
    except Exception as e:  # noqa: BLE001
        if not offblock:
            raise
        mon.violation(mech, {"what": "exception", "error": repr(e)[:300]})
        return
    mon.count("inversions:permuted")
    _residuals(mon, "permuted", iA, Dp, Dinv, mech)
    if not np.array_equal(A.data, data0):
        mon.violation("permuted-inverse:argument-modified", {})
    # documented rejections
    try:
        mo.generate_permutation_to_block_diag_matrix(sps.csr_matrix(np.ones((2, 3))))
        mon.violation("permutation:rectangular-accepted", {})
    except ValueError:
        mon.count("rejections_observed")
    try:
        mo.generate_permutation_to_block_diag_matrix(np.eye(2))
        mon.violation("permutation:dense-accepted", {})
    except TypeError:
        mon.count("rejections_observed")


def check(case, mon):
    import porepy as pp
    mo = pp.matrix_operations
    sizes = case["sizes"]
    mon.klass(f"{case['kind']}:{case['fmt']}:{case['style']}"
              + (":explicit-zeros" if case["explicit_zeros"] else "")
              + (":unsorted" if case["unsorted"] else ""))
    mon.nontrivial(len(sizes) >= 2 and max(sizes) >= 2)
    mon.count("blocks", len(sizes))
    mon.measure("matrix_size", sum(sizes))
    if case["kind"] == "direct":
        _direct(case, mon, mo)
    else:
        _permuted(case, mon, mo)
