"""C10 Simulation driver keeps solution state consistent across failures.

Monitor: ``pp.run_time_dependent_model`` runs the real ``NewtonSolver`` / ``SolutionStrategy``
on a small nonlinear model (compressible single-phase flow, exponential density law,
time-dependent Dirichlet data, 6-25 cells, 0-2 fractures).  Fault injection: the model
subclass overrides ``check_convergence`` and follows a failure script (per nonlinear solve:
natural outcome / diverge at Newton iteration j / never converge within ``max_iterations``
/ declare convergence at iteration j, which also steers the adaptive time step).  The
hooks ``before_nonlinear_loop``, ``after_nonlinear_convergence``, ``after_nonlinear_failure``
and ``update_solution`` are wrapped by recording overrides; at each of these quiescent
points the stored values are read through the public ``EquationSystem.get_variable_values``
and decided by a list machine fed with the accepted solutions (a Python list used as a
sliding window).
"""
from __future__ import annotations

import math

import numpy as np

PROP = "C10"
N = {"quick": 25, "thorough": 800}
WORKERS = {"quick": 4, "thorough": 16}
TIMEOUT = {"quick": 300, "thorough": 3300}
CASE_TIMEOUT = 120.0
RULE = ("failure scripts over the nonlinear solves of a run (natural / diverge at iteration "
        "1-3 / stall until max_iterations / forced convergence at iteration j), followed by a "
        "convergent default action; adaptive time managers (2-3 scheduled points with "
        "dt_max <= shortest interval, random dt_init/dt_min_max/relaxation/recomputation "
        "parameters, small budgets so that exhaustion occurs) and constant dt; stored "
        "time-step depth 1-3, iterate depth 1-2; thorough additionally enumerates all "
        "patterns over 5 solves x {natural, diverge@1, diverge@2, diverge@3}. non-trivial = "
        ">= 2 accepted steps and (>= 1 failed solve or depth >= 2); distinct = case hash")
REACH = [
    ("models/run_models.py", "run_time_dependent_model"),
    ("numerics/nonlinear/nonlinear_solvers.py", "NewtonSolver.solve"),
    ("models/solution_strategy.py", "SolutionStrategy.after_nonlinear_convergence"),
    ("models/solution_strategy.py", "SolutionStrategy.after_nonlinear_failure"),
    ("models/solution_strategy.py", "SolutionStrategy.update_solution"),
    ("models/solution_strategy.py", "SolutionStrategy.before_nonlinear_loop"),
    ("numerics/ad/equation_system.py", "EquationSystem.shift_time_step_values"),
    ("numerics/ad/ad_utils.py", "shift_solution_values"),
]
REACH_LINES = [
    ("numerics/nonlinear/nonlinear_solvers.py", "model.after_nonlinear_failure()"),
    ("models/solution_strategy.py",
     "self.time_manager.compute_time_step(recompute_solution=True)"),
    ("models/solution_strategy.py",
     "self.equation_system.set_variable_values(prev_solution, iterate_index=0)"),
    ("models/solution_strategy.py", 'raise ValueError("Nonlinear iterations did not converge.")'),
]
REQUIRED = {
    "runs": 10, "solves": 60, "solves_converged": 40, "solves_failed": 15,
    "failed_by_divergence": 5, "failed_by_iteration_limit": 3,
    "after_convergence_checked": 40, "after_failure_checked": 10,
    "history_entries_compared": 100, "runs_ended_at_final_time": 6,
    "runs_ended_by_budget_ValueError": 1, "update_solution_calls": 40,
    "runs_depth3": 3,
}
ASSUMPTIONS = [
    "time managers are chosen so that the schedule-overshoot mechanism of C09 cannot occur "
    "(dt_max <= shortest scheduled interval)",
    "forced convergence accepts an unconverged Newton iterate: the property concerns the "
    "bookkeeping of accepted iterates, not their accuracy",
    "stored values are compared bitwise (np.array_equal); the clock after a failure is "
    "compared with 1e-12 relative tolerance (round-off of (t + dt) - dt)",
]
LEVEL_TEXT = ("Fault injection through a model subclass overriding check_convergence; the "
              "driver, Newton solver and solution-strategy hooks are the real ones. After "
              "every convergence / failure and before every solve the stored iterate and "
              "time-step values are compared bitwise with a list machine of accepted "
              "solutions; runs must end at the final time (or raise once the recomputation "
              "budget is exhausted, leaving the history at the last accepted step).")
TECHNIQUE = "runtime monitoring: fault injection + list-machine reference model at quiescent points"

CLOCK_TOL = 1e-12
MAX_SOLVES = 80


class HarnessStop(Exception):
    """Raised by the monitor to end a run after a violated prefix (harness code)."""


# ------------------------------------------------------------------ model under monitor
_MODEL = None


def _model_class():
    global _MODEL
    if _MODEL is not None:
        return _MODEL
    import porepy as pp
    from porepy.applications.md_grids.model_geometries import SquareDomainOrthogonalFractures

    class _BC:
        def bc_type_darcy_flux(self, sd):
            b = self.domain_boundary_sides(sd)
            return pp.BoundaryCondition(sd, b.west + b.east, "dir")

        def bc_values_pressure(self, bg):
            v = np.zeros(bg.num_cells)
            b = self.domain_boundary_sides(bg)
            v[b.west] = self._pvm["p_west"] * (1.0 + self._pvm["rate"] * self.time_manager.time)
            v[b.east] = self._pvm["p_east"]
            return v

        def darcy_flux_discretization(self, subdomains):
            # two-point fluxes: exact on the Cartesian grids used here and much cheaper
            # to set up than the default MPFA (the property concerns the driver)
            return pp.ad.TpfaAd(self.darcy_keyword, subdomains)

    class FaultModel(_BC, SquareDomainOrthogonalFractures, pp.SinglePhaseFlow):
        # -------- configuration of the stored history
        @property
        def time_step_indices(self):
            return np.arange(self._pvm["ts_depth"])

        @property
        def iterate_indices(self):
            return np.arange(self._pvm["it_depth"])

        # -------- recording overrides ("wrappers" of the real hooks)
        def before_nonlinear_loop(self):
            super().before_nonlinear_loop()
            self._rec.before_loop(self)

        def check_convergence(self, nonlinear_increment, residual, reference_residual,
                              nl_params):
            nat = super().check_convergence(nonlinear_increment, residual,
                                            reference_residual, nl_params)
            return self._rec.decide(self, nat)

        def after_nonlinear_convergence(self):
            self._rec.pre_convergence(self)
            super().after_nonlinear_convergence()
            self._rec.post_convergence(self)

        def update_solution(self, solution):
            self._rec.update_solution_called(self, solution)
            super().update_solution(solution)

        def after_nonlinear_failure(self):
            self._rec.pre_failure(self)
            try:
                super().after_nonlinear_failure()
            except ValueError as e:
                self._rec.failure_raised(self, e)
                raise
            self._rec.post_failure(self)

    _MODEL = (pp, FaultModel)
    return _MODEL


class Recorder:
    """Recording + online oracle (list machine of accepted solutions)."""

    def __init__(self, mon, case):
        self.mon = mon
        self.case = case
        self.script = [list(a) for a in case["script"]]
        self.default = list(case.get("default", ["nat"]))
        self.solve = -1
        self.machine = None           # accepted solutions, most recent first
        self.depth = int(case["ts_depth"])
        self.accepted_times = []
        self.n_acc = 0
        self.n_fail = 0
        self.consec_fail = 0
        self.violated = False
        self.raised = None
        self.raise_expected = None
        self._pre_sol = None
        self._pre = None
        self.t_last = None
        self.action = None

    # ---- helpers
    def ts(self, m, i):
        return m.equation_system.get_variable_values(time_step_index=i)

    def it(self, m, i):
        return m.equation_system.get_variable_values(iterate_index=i)

    def bad(self, mech, detail):
        d = dict(detail)
        d.update({"solve": self.solve, "action": self.action,
                  "accepted_steps": self.n_acc, "failed_solves": self.n_fail})
        self.mon.violation(mech, d)
        self.violated = True
        raise HarnessStop(mech)

    def history(self, m, where):
        """ts[i] is the i-th previous accepted solution (bitwise)."""
        for i in range(self.depth):
            got = self.ts(m, i)
            self.mon.count("history_entries_compared")
            if not np.array_equal(got, self.machine[i]):
                self.bad(f"time-step-history-differs-from-accepted-solutions:{where}",
                         {"index": i, "max_abs_diff": float(np.max(np.abs(
                             got - self.machine[i]))) if got.shape == self.machine[i].shape
                          else "shape"})

    # ---- hooks
    def start(self, m):
        init = self.ts(m, 0)
        self.machine = [init.copy() for _ in range(self.depth)]
        self.t_last = float(m.time_manager.time)
        self.history(m, "after-prepare-simulation")

    def before_loop(self, m):
        self.solve += 1
        if self.solve >= MAX_SOLVES:
            raise RuntimeError("harness: run exceeds the solve bound of the generator")
        self.action = self.script[self.solve] if self.solve < len(self.script) else self.default
        self.mon.count("solves")
        self.mon.count("action_" + str(self.action[0]))
        # initial guess of the unknown step equals the last accepted solution
        if not np.array_equal(self.it(m, 0), self.machine[0]):
            self.bad("initial-guess-differs-from-last-accepted-solution", {})
        self.history(m, "before-solve")

    def decide(self, m, nat):
        k = int(m.nonlinear_solver_statistics.num_iteration)
        kind = self.action[0]
        # the stored time-step values must not change during Newton iterations
        self.history(m, "during-newton")
        if kind == "nat":
            return nat
        if kind == "stall":
            return False, False
        j = int(self.action[1])
        if k < j:
            return False, False
        return (True, False) if kind == "conv" else (False, True)

    def pre_convergence(self, m):
        self._pre_sol = self.it(m, 0).copy()
        self._pre = (float(m.time_manager.time), float(m.time_manager.dt))

    def update_solution_called(self, m, solution):
        self.mon.count("update_solution_calls")
        if self._pre_sol is not None and np.array_equal(np.asarray(solution), self._pre_sol):
            self.mon.count("update_solution_with_converged_iterate")

    def post_convergence(self, m):
        self.mon.count("solves_converged")
        sol = self._pre_sol
        t_acc = self._pre[0]
        if not np.array_equal(self.ts(m, 0), sol):
            self.bad("stored-time-step-values-differ-from-converged-iterate",
                     {"max_abs_diff": float(np.max(np.abs(self.ts(m, 0) - sol)))})
        if not np.array_equal(self.it(m, 0), sol):
            self.bad("iterate-changed-by-after-nonlinear-convergence", {})
        self.machine = [sol.copy()] + self.machine[:-1]
        self.history(m, "after-convergence")
        if self.machine[0].size and self.depth > 1 and self.n_acc >= 0:
            self.mon.measure("accepted_solution_change",
                             float(np.max(np.abs(self.machine[0] - self.machine[1]))))
        if not (t_acc > self.t_last):
            self.bad("accepted-time-not-increasing", {"t": t_acc, "last": self.t_last})
        self.t_last = t_acc
        self.accepted_times.append(t_acc)
        self.n_acc += 1
        self.consec_fail = 0
        self.mon.count("after_convergence_checked")
        self._pre_sol = None

    def pre_failure(self, m):
        tm = m.time_manager
        self.mon.count("solves_failed")
        self.n_fail += 1
        k = int(m.nonlinear_solver_statistics.num_iteration)
        self.mon.count("failed_by_divergence" if self.action[0] == "div" else
                       "failed_by_iteration_limit" if self.action[0] == "stall" else
                       "failed_other")
        self._pre = (float(tm.time), float(tm.dt), int(tm.time_index), k)
        self.raise_expected = (
            "constant-dt" if tm.is_constant else
            "budget" if self.consec_fail >= int(tm.recomp_max) else
            "dt-min" if float(tm.dt) == float(tm.dt_min_max[0]) else None)

    def failure_raised(self, m, e):
        self.raised = str(e)[:200]
        if self.raise_expected is None:
            self.bad("failure-raised-before-recomputation-exhausted", {"msg": self.raised})
        # state stays at the last accepted step
        self.history(m, "after-exhausted-failure")
        self.mon.count("failure_raise_checked")

    def post_failure(self, m):
        tm = m.time_manager
        if self.raise_expected is not None:
            self.bad("failure-not-raised:" + self.raise_expected, {})
        self.consec_fail += 1
        it0 = self.it(m, 0)
        if not np.array_equal(it0, self.ts(m, 0)):
            self.bad("iterate-not-reset-to-stored-time-step-values-after-failure",
                     {"max_abs_diff": float(np.max(np.abs(it0 - self.ts(m, 0))))})
        if not np.array_equal(it0, self.machine[0]):
            self.bad("iterate-not-reset-to-last-accepted-solution-after-failure",
                     {"max_abs_diff": float(np.max(np.abs(it0 - self.machine[0])))})
        self.history(m, "after-failure")
        t_fail, dt_fail, idx_fail, _ = self._pre
        err = abs(float(tm.time) - self.t_last) / max(abs(self.t_last), dt_fail)
        self.mon.measure("clock_restore_error_rel", err)
        if err > CLOCK_TOL:
            self.bad("clock-not-rewound-to-last-accepted-time-after-failure",
                     {"clock": float(tm.time), "last_accepted": self.t_last})
        if int(tm.time_index) != self.n_acc:
            self.bad("time-index-not-restored-after-failure",
                     {"time_index": int(tm.time_index), "accepted": self.n_acc})
        self.mon.count("after_failure_checked")


# ------------------------------------------------------------------ cases
def _tm(schedule, dt_init, dmm, opt=(2, 6), relax=(0.5, 2.0), rf=0.5, rmax=3, iter_max=8,
        constant=False):
    return {"schedule": schedule, "dt_init": dt_init, "dt_min_max": dmm, "constant_dt": constant,
            "iter_max": iter_max, "iter_optimal_range": list(opt),
            "iter_relax_factors": list(relax), "recomp_factor": rf, "recomp_max": rmax}


def _case(tm, script, default=("nat",), ts_depth=1, it_depth=1, mesh=(0.5, [1]),
          max_iterations=6, **kw):
    c = {"kind": "run", "tm": tm, "script": [list(a) for a in script],
         "default": list(default), "ts_depth": ts_depth, "it_depth": it_depth,
         "cell_size": mesh[0], "fractures": list(mesh[1]), "max_iterations": max_iterations,
         "compressibility": 0.2, "p_west": 2.0, "p_east": 1.0, "rate": 1.0}
    c.update(kw)
    return c


N_, D1, D2, D3, ST = ["nat"], ["div", 1], ["div", 2], ["div", 3], ["stall"]
C1, C2, C6 = ["conv", 1], ["conv", 2], ["conv", 6]


def floor(tier):
    tmA = _tm([0, 1.0], 0.25, [0.02, 0.5])
    out = [
        # no failure; depth 1 and 3
        _case(tmA, [], ts_depth=1),
        _case(tmA, [], ts_depth=3, it_depth=2),
        # single failures at different Newton iterations, first / middle / last solve
        _case(tmA, [D1], ts_depth=3),
        _case(tmA, [N_, D2, N_, D3], ts_depth=3, mesh=(0.25, [1])),
        _case(tmA, [N_, N_, ST, N_], ts_depth=2, max_iterations=4),
        # three consecutive failures (within budget 3), then recovery
        _case(tmA, [N_, D1, D2, ST, N_, C1, C1], ts_depth=3, max_iterations=4),
        # budget exhausted: 4 consecutive failures with recomp_max = 3
        _case(tmA, [N_, D1, D1, D1, D1], ts_depth=3),
        # dt reaches dt_min, then a failure raises
        _case(_tm([0, 1.0], 0.25, [0.1, 0.5]), [N_, D1, D1, D1], ts_depth=2),
        # failure of the step that lands on a scheduled time / on the final time
        _case(_tm([0, 0.5, 1.0], 0.25, [0.02, 0.5]), [N_, D2, N_, N_, D1, ST, N_], ts_depth=3,
              max_iterations=4, fractures=[0, 1]),
        _case(_tm([0, 1.0], 0.5, [0.05, 0.5]), [N_, D1, N_, D1], ts_depth=2, fractures=[0]),
        # adaptive growth / shrink driven by forced iteration counts
        _case(_tm([0, 1.0], 0.1, [0.02, 0.5]), [C1, C1, C6, D1, C1, C6, C1], default=C1,
              ts_depth=3),
        # first solve fails (history holds only initial values)
        _case(tmA, [ST, D1, N_], ts_depth=3, max_iterations=3, fractures=[]),
        # arbitrary start time
        _case(_tm([2.0, 2.5, 3.0], 0.25, [0.03, 0.5], rf=0.3, rmax=2), [D3, N_, D1, D1, N_],
              ts_depth=2),
        # constant dt: all converged, and a failure (documented ValueError)
        _case(_tm([0, 1.0], 0.25, None, constant=True), [], ts_depth=3),
        _case(_tm([0, 1.0], 0.25, None, constant=True), [N_, D1], ts_depth=2),
    ]
    if tier == "thorough":
        acts = [N_, D1, D2, D3]
        tmE = _tm([0, 1.0], 0.5, [0.05, 0.5], rmax=3)
        for code in range(4 ** 5):
            scr = [acts[(code // 4 ** k) % 4] for k in range(5)]
            out.append(_case(tmE, scr, ts_depth=2 + code % 2))
    return out


def generate(rng, tier, i):
    constant = rng.random() < 0.08
    t0 = float([0.0, 0.0, 0.0, rng.uniform(0.1, 5.0)][int(rng.integers(0, 4))])
    T = float([1.0, 0.5, 2.0, rng.uniform(0.3, 3.0)][int(rng.integers(0, 4))])
    nint = 1 if rng.random() < 0.6 else 2
    if constant:
        nsteps = int(rng.integers(2, 7))
        dt = T / nsteps
        sched = [t0, t0 + dt * nsteps] if nint == 1 else [t0, t0 + dt * int(rng.integers(1, nsteps)),
                                                          t0 + dt * nsteps]
        tm = _tm(sched, dt, None, constant=True)
    else:
        if nint == 1:
            sched = [t0, t0 + T]
            shortest = T
        else:
            f = float(rng.uniform(0.3, 0.7))
            sched = [t0, t0 + f * T, t0 + T]
            shortest = min(f, 1 - f) * T
        first = sched[1] - sched[0]
        dt_init = min(first, shortest) / float([1, 2, 3, rng.uniform(1.0, 4.0)][int(rng.integers(0, 4))])
        lo = int(rng.integers(1, 4))
        up = lo + int(rng.integers(1, 4))
        iter_max = up + int(rng.integers(0, 3))
        under = float(rng.uniform(0.3, 0.9))
        over = float(rng.uniform(1.1, 3.0))
        dmin = max(dt_init * float(rng.uniform(0.05, 1.0)), T / 12.0)
        dmin = min(dmin, dt_init)
        dmax = min(shortest, dt_init * float(rng.uniform(1.0, 3.0)))
        dmax = max(dmax, dt_init)
        # admissibility (constructor): dmin*over <= dmax, dmax*under >= dmin
        if dmin * over > dmax:
            dmin = dmax / over * float(rng.uniform(0.3, 1.0))
        if dmax * under < dmin:
            dmin = dmax * under * float(rng.uniform(0.3, 1.0))
        tm = _tm(sched, dt_init, [dmin, dmax], opt=(lo, up), relax=(under, over),
                 rf=float(rng.uniform(0.2, 0.8)), rmax=int(rng.integers(1, 5)),
                 iter_max=iter_max)
    max_it = int(rng.integers(3, 8))
    length = int(rng.integers(0, 13))
    pf = float(rng.choice([0.15, 0.35, 0.6]))
    script = []
    for k in range(length):
        if rng.random() < pf and not (constant and rng.random() < 0.7):
            r = rng.random()
            script.append(["div", int(rng.integers(1, 4))] if r < 0.7 else ["stall"])
        else:
            r = rng.random()
            script.append(["nat"] if r < 0.5 else ["conv", int(rng.integers(1, max_it + 1))])
    default = ["nat"] if rng.random() < 0.3 else ["conv", int(rng.integers(1, 3))]
    cs, fr = [(0.5, [1]), (0.5, [0]), (0.5, [0, 1]), (0.25, [1]), (0.5, []), (0.25, [0])][
        int(rng.integers(0, 6))]
    return _case(tm, script, default=default, ts_depth=int(rng.integers(1, 4)),
                 it_depth=int(rng.integers(1, 3)), mesh=(cs, fr), max_iterations=max_it,
                 compressibility=float(rng.choice([0.05, 0.2, 0.5])),
                 p_west=float(rng.uniform(1.2, 3.0)), rate=float(rng.uniform(0.2, 2.0)),
                 seed=int(rng.integers(0, 2 ** 31)))


# ------------------------------------------------------------------ check
def warmup():
    """One tiny run so that numba kernels etc. are compiled before reach counting."""
    pp, Model = _model_class()
    from pvm.monitor import Monitor
    mon = Monitor(PROP)
    mon.begin_case(-1, {})
    try:
        check(_case(_tm([0, 1.0], 0.5, [0.05, 0.5]), [D1]), mon)
    except Exception:  # noqa: BLE001  (a failing warm-up shows up in the cases)
        pass
    finally:
        mon.end_case()


def check(case, mon):
    pp, Model = _model_class()
    t = case["tm"]
    try:
        tm = pp.TimeManager(
            schedule=list(t["schedule"]), dt_init=t["dt_init"],
            constant_dt=bool(t.get("constant_dt", False)),
            dt_min_max=None if t.get("dt_min_max") is None else tuple(t["dt_min_max"]),
            iter_max=int(t["iter_max"]),
            iter_optimal_range=tuple(int(v) for v in t["iter_optimal_range"]),
            iter_relax_factors=tuple(float(v) for v in t["iter_relax_factors"]),
            recomp_factor=float(t["recomp_factor"]), recomp_max=int(t["recomp_max"]))
    except ValueError as e:
        mon.excluded("time manager constructor rejected the parameters: " + str(e)[:50])
        return
    fluid = pp.FluidComponent(compressibility=float(case["compressibility"]), viscosity=1.0,
                              density=1.0)
    solid = pp.SolidConstants(porosity=0.3, permeability=1.0, residual_aperture=0.1,
                              normal_permeability=1.0)
    params = {
        "material_constants": {"fluid": fluid, "solid": solid},
        "time_manager": tm,
        "fracture_indices": [int(v) for v in case["fractures"]],
        "meshing_arguments": {"cell_size": float(case["cell_size"])},
        "grid_type": "cartesian",
        "times_to_export": [],
        "folder_name": "/tmp/c10_pvm_unused",
        "linear_solver": "scipy_sparse",
    }
    model = Model(params)
    model._pvm = {"ts_depth": int(case["ts_depth"]), "it_depth": int(case["it_depth"]),
                  "p_west": float(case["p_west"]), "p_east": float(case["p_east"]),
                  "rate": float(case["rate"])}
    rec = Recorder(mon, case)
    model._rec = rec

    model.prepare_simulation()
    rec.start(model)
    if case.get("seed") is not None:
        # random (smooth) initial state so that history entries are distinguishable
        rng = np.random.default_rng(int(case["seed"]))
        n = model.equation_system.num_dofs()
        pert = 1.0 + 0.05 * rng.random(n)
        for i in range(int(case["it_depth"])):
            model.equation_system.set_variable_values(pert.copy(), iterate_index=i)
        for i in range(int(case["ts_depth"])):
            model.equation_system.set_variable_values(pert.copy(), time_step_index=i)
        rec.machine = [pert.copy() for _ in range(rec.depth)]
    ended = None
    try:
        pp.run_time_dependent_model(model, {"prepare_simulation": False,
                                            "max_iterations": int(case["max_iterations"]),
                                            "nl_convergence_tol": 1e-9})
        ended = "final"
    except HarnessStop:
        ended = "violated"
    except ValueError as e:
        if rec.raised is None:
            raise          # not from the failure hook: classified by the framework
        ended = "raised"

    mon.count("runs")
    mon.klass(f"ts_depth={case['ts_depth']},it_depth={case['it_depth']}")
    mon.klass("constant-dt" if tm.is_constant else "adaptive-dt")
    mon.klass("ended:" + ended + (":" + str(rec.raise_expected) if ended == "raised" else ""))
    mon.klass(f"cells={model.mdg.num_subdomain_cells()}")
    mon.measure("solves_per_run", rec.solve + 1)
    if int(case["ts_depth"]) == 3:
        mon.count("runs_depth3")
    if ended == "violated":
        return
    try:
        if ended == "final":
            mon.count("runs_ended_at_final_time")
            final = float(tm.time_final)
            if not tm.final_time_reached():
                rec.bad("run-returned-before-final-time", {"t": float(tm.time)})
            if abs(float(tm.time) - final) > float(tm.atol) + float(tm.rtol) * abs(final):
                rec.bad("run-did-not-end-at-final-time", {"t": float(tm.time), "final": final})
            if rec.n_acc < 1 or abs(rec.t_last - float(tm.time)) > 0:
                rec.bad("last-accepted-time-is-not-the-clock", {"t": float(tm.time),
                                                                "last": rec.t_last})
            rec.history(model, "end-of-run")
            if not np.array_equal(rec.it(model, 0), rec.machine[0]):
                rec.bad("final-iterate-differs-from-last-accepted-solution", {})
        else:
            mon.count("runs_ended_by_" + {"budget": "budget", "dt-min": "dt_min",
                                           "constant-dt": "constant_dt"}.get(
                                               rec.raise_expected, "other") + "_ValueError")
            rec.history(model, "end-of-run-after-ValueError")
    except HarnessStop:
        return
    mon.nontrivial(rec.n_acc >= 2 and (rec.n_fail >= 1 or int(case["ts_depth"]) >= 2))
