"""Seeded mixed-dimensional grid generators.  Recipe (JSON-able):

    {"dim": 2|3, "mesh": "cartesian"|"simplex",
     "domain": [Lx, Ly, (Lz)],                 integer box [0,Lx]x[0,Ly](x[0,Lz])
     "n": [nx, ny, (nz)]                       cartesian: cells per direction (cell size
                                               = domain/n; fracture coords are multiples)
     "h": float                                simplex: cell_size
     "fractures": 2-D: [[[x0,y0],[x1,y1]], ...]
                  3-D: [[[x,y,z] x 4 vertices], ...]  (axis-aligned rectangles)}

``build(recipe)`` returns a pp.MixedDimensionalGrid with geometry computed.
2-D generator classes: none / isolated / X / T / L / touching the boundary; fractures lie
on an integer lattice, are never collinear-overlapping (the mesher rejects those itself).
"""
from __future__ import annotations

import copy
from fractions import Fraction

import numpy as np

import porepy as pp


def origin(recipe) -> np.ndarray:
    """Lower corner of the domain (optional recipe key "origin", default the origin).
    Fracture coordinates in the recipe are relative to it."""
    o = np.zeros(3)
    if recipe.get("origin") is not None:
        o[:recipe["dim"]] = np.asarray(recipe["origin"], dtype=float)
    return o


def apply_scale(recipe):
    """Recipe with the optional key "scale" applied to every length (domain, origin,
    fracture coordinates, simplex cell size); the number of Cartesian cells is kept."""
    sc = recipe.get("scale")
    if not sc or sc == 1:
        return recipe
    r = copy.deepcopy(recipe)
    r.pop("scale")
    r["domain"] = [float(v) * sc for v in r["domain"]]
    r["fractures"] = [[[float(x) * sc for x in p] for p in f] for f in r["fractures"]]
    if r.get("origin") is not None:
        r["origin"] = [float(v) * sc for v in r["origin"]]
    if "h" in r:
        r["h"] = float(r["h"]) * sc
    return r


def build(recipe):
    recipe = apply_scale(recipe)
    dim = recipe["dim"]
    L = [float(v) for v in recipe["domain"]]
    o = origin(recipe)
    if dim == 2:
        domain = pp.Domain({"xmin": o[0], "xmax": o[0] + L[0],
                            "ymin": o[1], "ymax": o[1] + L[1]})
        fracs = [pp.LineFracture(np.array(f, dtype=float).T + o[:2, None])
                 for f in recipe["fractures"]]
    else:
        domain = pp.Domain({"xmin": o[0], "xmax": o[0] + L[0], "ymin": o[1],
                            "ymax": o[1] + L[1], "zmin": o[2], "zmax": o[2] + L[2]})
        fracs = [pp.PlaneFracture(np.array(f, dtype=float).T + o[:, None])
                 for f in recipe["fractures"]]
    net = pp.create_fracture_network(fracs, domain)
    if recipe["mesh"] == "tensor_grid":
        # uniform tensor grid requested through a target cell size that need not divide
        # the domain extent (the mesher rounds the number of cells)
        mdg = pp.create_mdg("tensor_grid", {"cell_size": float(recipe["h"])}, net)
    elif recipe["mesh"] == "cartesian":
        n = recipe["n"]
        args = {"cell_size_x": L[0] / n[0], "cell_size_y": L[1] / n[1]}
        if dim == 3:
            args["cell_size_z"] = L[2] / n[2]
        mdg = pp.create_mdg("cartesian", args, net)
    else:
        h = float(recipe["h"])
        args = {"cell_size": h, "cell_size_fracture": h, "cell_size_boundary": h,
                "cell_size_min": h / 4}
        mdg = pp.create_mdg("simplex", args, net)
    mdg.compute_geometry()
    return mdg


# --------------------------------------------------------------------- exact 2-D checks
def _orient(a, b, c):
    return (b[0] - a[0]) * (c[1] - a[1]) - (b[1] - a[1]) * (c[0] - a[0])


def _collinear_overlap(s, t):
    a, b = s
    c, d = t
    if _orient(a, b, c) != 0 or _orient(a, b, d) != 0:
        return False
    k = 0 if a[0] != b[0] else 1
    lo1, hi1 = sorted((a[k], b[k]))
    lo2, hi2 = sorted((c[k], d[k]))
    return max(lo1, lo2) < min(hi1, hi2)  # positive-length overlap


def _touch_only_at_endpoints_or_cross(s, t):
    return True


def seg_relation(s, t):
    """Exact relation of two integer segments: 'none','X','T','L','overlap','touch'."""
    a, b = s
    c, d = t
    if _collinear_overlap(s, t):
        return "overlap"
    o1, o2 = _orient(a, b, c), _orient(a, b, d)
    o3, o4 = _orient(c, d, a), _orient(c, d, b)
    def on(p, q, r):  # r on closed segment pq (collinear known)
        return min(p[0], q[0]) <= r[0] <= max(p[0], q[0]) and \
            min(p[1], q[1]) <= r[1] <= max(p[1], q[1])
    if o1 * o2 < 0 and o3 * o4 < 0:
        return "X"
    shared_end = {tuple(a), tuple(b)} & {tuple(c), tuple(d)}
    if shared_end:
        return "L"
    if (o1 == 0 and on(a, b, c)) or (o2 == 0 and on(a, b, d)) or \
            (o3 == 0 and on(c, d, a)) or (o4 == 0 and on(c, d, b)):
        return "T"
    return "none"


def random_2d(rng, mesh=None, max_fracs=3, axis_aligned=None):
    """Random 2-D recipe.  Cartesian meshes need axis-aligned fractures."""
    mesh = mesh or str(rng.choice(["cartesian", "simplex"]))
    Lx, Ly = int(rng.integers(2, 5)), int(rng.integers(2, 5))
    if axis_aligned is None:
        axis_aligned = (mesh == "cartesian") or rng.random() < 0.4
    nf = int(rng.integers(0, max_fracs + 1))
    fr = []
    tries = 0
    while len(fr) < nf and tries < 200:
        tries += 1
        if axis_aligned:
            if rng.random() < 0.5:
                y = int(rng.integers(1, Ly)) if rng.random() < 0.9 else int(rng.integers(1, Ly))
                x0 = int(rng.integers(0, Lx))
                x1 = int(rng.integers(x0 + 1, Lx + 1))
                s = [[x0, y], [x1, y]]
            else:
                x = int(rng.integers(1, Lx))
                y0 = int(rng.integers(0, Ly))
                y1 = int(rng.integers(y0 + 1, Ly + 1))
                s = [[x, y0], [x, y1]]
        else:
            p = [int(rng.integers(0, Lx + 1)), int(rng.integers(0, Ly + 1))]
            q = [int(rng.integers(0, Lx + 1)), int(rng.integers(0, Ly + 1))]
            if p == q:
                continue
            # not lying in the domain boundary
            if (p[0] == q[0] and p[0] in (0, Lx)) or (p[1] == q[1] and p[1] in (0, Ly)):
                continue
            s = [p, q]
        rels = [seg_relation(s, t) for t in fr]
        if "overlap" in rels:
            continue
        if mesh == "simplex" and not axis_aligned:
            # avoid near-degenerate tiny angles / near-touching: require lattice relations only
            pass
        fr.append(s)
    r = {"dim": 2, "mesh": mesh, "domain": [Lx, Ly], "fractures": fr}
    if mesh == "cartesian":
        k = int(rng.integers(1, 3))
        r["n"] = [Lx * k, Ly * k]
    else:
        r["h"] = float(rng.choice([0.5, 0.75, 1.0]))
    return r


def tensor_variant(rng, recipe):
    """Turn a Cartesian recipe into a "tensor_grid" one with a target cell size that does
    not divide the domain extent but rounds to k cells per unit length, so the integer
    fracture coordinates still are grid lines."""
    r = copy.deepcopy(recipe)
    k = int(rng.integers(1, 3))
    eps = float(rng.choice([-1, 1]) * rng.uniform(0.03, 0.1))
    r["mesh"] = "tensor_grid"
    r["h"] = 1.0 / (k + eps)
    r.pop("n", None)
    return r


def random_3d(rng, mesh=None, max_fracs=2):
    """Axis-aligned rectangular fractures in an integer box."""
    mesh = mesh or str(rng.choice(["cartesian", "simplex"], p=[0.6, 0.4]))
    L = [int(rng.integers(2, 4)) for _ in range(3)]
    nf = int(rng.integers(0, max_fracs + 1))
    fr = []
    used = set()
    tries = 0
    while len(fr) < nf and tries < 100:
        tries += 1
        ax = int(rng.integers(0, 3))
        c = int(rng.integers(1, L[ax]))
        if (ax, c) in used or any(a == ax for a, _ in used):
            continue  # at most one fracture per normal direction: no coplanar overlaps
        o = [k for k in range(3) if k != ax]
        lo = [int(rng.integers(0, L[k])) for k in o]
        hi = [int(rng.integers(lo[j] + 1, L[k] + 1)) for j, k in enumerate(o)]
        v = []
        for (u, w) in [(lo[0], lo[1]), (hi[0], lo[1]), (hi[0], hi[1]), (lo[0], hi[1])]:
            p = [0, 0, 0]
            p[ax] = c
            p[o[0]] = u
            p[o[1]] = w
            v.append(p)
        used.add((ax, c))
        fr.append(v)
    r = {"dim": 3, "mesh": mesh, "domain": L, "fractures": fr}
    if mesh == "cartesian":
        r["n"] = list(L)
    else:
        r["h"] = 1.0
    return r


FLOOR_2D = [
    {"dim": 2, "mesh": "cartesian", "domain": [2, 2], "n": [2, 2], "fractures": []},
    {"dim": 2, "mesh": "cartesian", "domain": [3, 2], "n": [3, 2],
     "fractures": [[[1, 1], [2, 1]]]},
    {"dim": 2, "mesh": "cartesian", "domain": [4, 4], "n": [4, 4],
     "fractures": [[[1, 2], [3, 2]], [[2, 1], [2, 3]]]},                      # X
    {"dim": 2, "mesh": "cartesian", "domain": [4, 4], "n": [4, 4],
     "fractures": [[[1, 2], [3, 2]], [[2, 2], [2, 3]]]},                      # T
    {"dim": 2, "mesh": "cartesian", "domain": [4, 4], "n": [4, 4],
     "fractures": [[[1, 2], [3, 2]], [[3, 2], [3, 3]]]},                      # L
    {"dim": 2, "mesh": "cartesian", "domain": [3, 3], "n": [3, 3],
     "fractures": [[[0, 1], [2, 1]]]},                                        # boundary
    {"dim": 2, "mesh": "simplex", "domain": [2, 2], "h": 1.0, "fractures": []},
    {"dim": 2, "mesh": "simplex", "domain": [3, 3], "h": 1.0,
     "fractures": [[[1, 1], [2, 2]]]},
    {"dim": 2, "mesh": "simplex", "domain": [4, 4], "h": 1.0,
     "fractures": [[[1, 1], [3, 3]], [[1, 3], [3, 1]]]},                      # X
    {"dim": 2, "mesh": "simplex", "domain": [4, 4], "h": 1.0,
     "fractures": [[[1, 2], [3, 2]], [[2, 2], [3, 4]]]},                      # T + boundary
]
FLOOR_3D = [
    {"dim": 3, "mesh": "cartesian", "domain": [2, 2, 2], "n": [2, 2, 2], "fractures": []},
    {"dim": 3, "mesh": "cartesian", "domain": [2, 2, 2], "n": [2, 2, 2],
     "fractures": [[[1, 0, 0], [1, 2, 0], [1, 2, 2], [1, 0, 2]]]},
    {"dim": 3, "mesh": "cartesian", "domain": [3, 3, 3], "n": [3, 3, 3],
     "fractures": [[[1, 0, 0], [1, 3, 0], [1, 3, 3], [1, 0, 3]],
                   [[0, 1, 0], [3, 1, 0], [3, 1, 3], [0, 1, 3]],
                   [[0, 0, 1], [3, 0, 1], [3, 3, 1], [0, 3, 1]]]},             # 0-d point
    {"dim": 3, "mesh": "simplex", "domain": [2, 2, 2], "h": 1.0,
     "fractures": [[[1, 0, 0], [1, 2, 0], [1, 2, 2], [1, 0, 2]]]},
]


def floor_recipes(dims=(2, 3), meshes=("cartesian", "simplex")):
    out = []
    if 2 in dims:
        out += [copy.deepcopy(r) for r in FLOOR_2D if r["mesh"] in meshes]
    if 3 in dims:
        out += [copy.deepcopy(r) for r in FLOOR_3D if r["mesh"] in meshes]
    return out


def random_recipe(rng, dims=(2, 3), meshes=("cartesian", "simplex"), max_fracs=3,
                  p3d=0.25):
    dim = 3 if (3 in dims and (2 not in dims or rng.random() < p3d)) else 2
    mesh = str(rng.choice(list(meshes)))
    if dim == 2:
        return random_2d(rng, mesh, max_fracs)
    return random_3d(rng, mesh, min(max_fracs, 3))
