"""Non-matching variants of md-grids built by ``pvm.gen.mdg`` (used by C26 and C27).

An *update* is a JSON-able dict

    {"kind": "mortar",    "sel": int, "how": "refine"|"remesh"|"other", "ratio": k,
                          "one_side": bool, "as_mortar": bool}
    {"kind": "secondary", "sel": int, "how": "refine"|"remesh"|"other", "ratio": k}
    {"kind": "primary",   "sel": int, "how": "copy"|"other", "ratio": k}

applied through ``mdg.replace_subdomains_and_interfaces`` (the supported entry point,
as used by ``pp.mdg_library.square_with_orthogonal_fractures(non_matching=True)``):

* mortar     -> ``MortarGrid.update_mortar``    new side grids: ``refine_grid_1d`` (nested),
                ``remesh_1d`` (uniform, not nested) or - 2-d mortars - the side grids of the
                same network meshed with another cell size (``match_2d``, simplex only);
* secondary  -> ``MortarGrid.update_secondary`` new fracture grid: same three choices
                (at most once per fracture: documented restriction of update_secondary);
* primary    -> ``MortarGrid.update_primary``   host of the same network meshed with
                another resolution, or an identical copy.  Only for networks in which no two
                fractures touch (the 1-d matching along a mortar is documented as fragile
                and rejects crossed fractures with ValueError) and only 2-D hosts
                (``update_primary`` is not implemented for 2-d mortars).

``apply`` returns a label, ``None`` when the update is not applicable to this md-grid,
and raises ``Rejected`` when porepy refuses the replacement with its documented
ValueError of the geometric matching.
"""
from __future__ import annotations

import copy
import traceback

import porepy as pp

from pvm.gen import mdg as gm


class Rejected(Exception):
    """``where`` is "matching" (ValueError raised inside match_grids: documented 'the
    matching procedure goes wrong') or "check_mappings" (MortarGrid._check_mappings found
    a mortar cell / row without any weight after the update)."""

    def __init__(self, msg, where):
        super().__init__(msg)
        self.where = where


def isolated(recipe) -> bool:
    fr = recipe["fractures"]
    if recipe["dim"] == 2:
        return all(gm.seg_relation(fr[i], fr[j]) == "none"
                   for i in range(len(fr)) for j in range(i + 1, len(fr)))
    return len(fr) <= 1


def other_resolution(recipe, ratio):
    r2 = copy.deepcopy(recipe)
    if r2["mesh"] == "cartesian":
        r2["n"] = [int(ratio) * k for k in r2["n"]]
    else:
        r2["h"] = float(r2["h"]) / {2: 1.5, 3: 2.0, 4: 2.5}.get(int(ratio), 2.0)
    return r2


class Variant:
    """State of the updates applied to one md-grid."""

    def __init__(self, mdg, recipe):
        self.mdg = mdg
        self.recipe = recipe
        self.secondary_done = set()     # fracture numbers whose grid was replaced
        self.primary_done = False
        self._other = {}

    def other(self, ratio):
        if ratio not in self._other:
            self._other[ratio] = gm.build(other_resolution(self.recipe, ratio))
        return self._other[ratio]


def _pick(c, sel):
    return c[int(sel) % len(c)] if c else None


def _rejected(e):
    fr = traceback.extract_tb(e.__traceback__)[-1]
    if not isinstance(e, ValueError):
        return None
    if fr.name == "_check_mappings":
        return "check_mappings"
    if fr.filename.endswith("match_grids.py"):
        return "matching"
    return None


def _new_1d(g, how, ratio):
    if how == "remesh":
        n_nodes = max(2, int(round(g.num_cells * ratio / 1.5)) + 1)
        if n_nodes == g.num_cells + 1:
            n_nodes += 1
        new = pp.refinement.remesh_1d(g, num_nodes=n_nodes)
        if hasattr(g, "frac_num"):
            new.frac_num = g.frac_num
    else:
        new = pp.refinement.refine_grid_1d(g, ratio=int(ratio))
    new.compute_geometry()
    return new


def _touches_others(recipe, k) -> bool:
    fr = recipe["fractures"]
    if recipe["dim"] == 2:
        return any(gm.seg_relation(fr[k], fr[j]) != "none" for j in range(len(fr)) if j != k)
    return len(fr) > 1


def apply(var: Variant, upd: dict):
    mdg, recipe = var.mdg, var.recipe
    top = recipe["dim"]
    kind = upd["kind"]
    ratio = int(upd.get("ratio", 2))
    how = upd.get("how", "refine")
    try:
        if kind == "mortar":
            cands = [i for i in mdg.interfaces(dim=top - 1, codim=1)]
            intf = _pick(cands, upd["sel"])
            if intf is None:
                return None
            _, sd_l = mdg.interface_to_subdomain_pair(intf)
            if top == 2:
                if how == "other":
                    how = "refine"
                if how == "remesh" and _touches_others(recipe, int(sd_l.frac_num)):
                    how = "refine"
                sides = list(intf.side_grids.items())
                if upd.get("one_side") and len(sides) == 2:
                    sides = sides[:1]
                new_sg = {s: _new_1d(g, how, ratio) for s, g in sides}
                arg = new_sg
                if upd.get("as_mortar") and len(new_sg) == intf.num_sides():
                    arg = pp.MortarGrid(intf.dim, new_sg, None, codim=intf.codim)
            else:
                if recipe["mesh"] != "simplex":
                    return None          # match_2d: simplices only (documented)
                mo = var.other(ratio)
                src = [j for j in mo.interfaces(dim=2, codim=1)
                       if mo.interface_to_subdomain_pair(j)[1].frac_num == sd_l.frac_num]
                if not src:
                    return None
                arg = src[0]
                how = "other"
            mdg.replace_subdomains_and_interfaces(interface_map={intf: arg})
            return f"mortar:{how}"

        if kind == "secondary":
            cands = [g for g in mdg.subdomains(dim=top - 1)
                     if int(g.frac_num) not in var.secondary_done]
            g = _pick(cands, upd["sel"])
            if g is None:
                return None
            if top == 2:
                if how == "other":
                    mo = var.other(ratio)
                    new = [x for x in mo.subdomains(dim=1) if x.frac_num == g.frac_num][0]
                else:
                    if how == "remesh" and _touches_others(recipe, int(g.frac_num)):
                        how = "refine"
                    new = _new_1d(g, how, ratio)
            else:
                if recipe["mesh"] != "simplex":
                    return None
                mo = var.other(ratio)
                new = [x for x in mo.subdomains(dim=2) if x.frac_num == g.frac_num][0]
                how = "other"
            var.secondary_done.add(int(g.frac_num))
            mdg.replace_subdomains_and_interfaces(sd_map={g: new})
            return f"secondary:{how}"

        if kind == "primary":
            if top != 2 or var.primary_done or not isolated(recipe) \
                    or not recipe["fractures"]:
                return None
            g = mdg.subdomains(dim=2)[0]
            if how == "copy":
                new = g.copy()
            else:
                new = var.other(ratio).subdomains(dim=2)[0]
                how = "other"
            var.primary_done = True
            mdg.replace_subdomains_and_interfaces(sd_map={g: new})
            return f"primary:{how}"
    except ValueError as e:
        where = _rejected(e)
        if where:
            raise Rejected(str(e)[:200], where) from e
        raise
    raise ValueError(f"unknown update kind {kind}")


def random_updates(rng, recipe, kmax=4):
    k = int(rng.integers(0, kmax + 1))
    out = []
    for _ in range(k):
        kind = str(rng.choice(["mortar", "secondary", "primary"], p=[0.4, 0.35, 0.25]))
        u = {"kind": kind, "sel": int(rng.integers(0, 10 ** 6)),
             "ratio": int(rng.integers(2, 5))}
        if kind == "primary":
            u["how"] = "copy" if rng.random() < 0.25 else "other"
        else:
            u["how"] = str(rng.choice(["refine", "remesh", "other"], p=[0.5, 0.3, 0.2]))
        if kind == "mortar":
            u["one_side"] = bool(rng.random() < 0.2)
            u["as_mortar"] = bool(rng.random() < 0.4)
        out.append(u)
    return out
