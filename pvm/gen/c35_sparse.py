"""Generators of small sparse matrices and index sets for C35 (and C37).

A matrix is described by its *explicit storage* so that a replay does not depend on the
generator:

    {"fmt": "csr"|"csc", "shape": [m, n], "indptr": [...], "indices": [...], "data": [...]}
    {"fmt": "coo", "shape": [m, n], "row": [...], "col": [...], "data": [...]}
    {"fmt": "dia", "diag": [...]}                       (main diagonal only, square)

Compressed matrices may have unsorted indices inside a line, explicit zeros, empty lines
and zero-sized dimensions.  Non-zero values are distinct positive integers (stored as
floats), so every comparison in the check is exact.

``dense(spec)`` is the independent dense reference (plain loops over the storage).
"""
from __future__ import annotations

import numpy as np
import scipy.sparse as sps


def build(spec):
    f = spec["fmt"]
    if f in ("csr", "csc"):
        cls = sps.csr_matrix if f == "csr" else sps.csc_matrix
        m = cls((np.asarray(spec["data"], dtype=float),
                 np.asarray(spec["indices"], dtype=np.int32),
                 np.asarray(spec["indptr"], dtype=np.int32)),
                shape=tuple(int(v) for v in spec["shape"]))
        return m
    if f == "coo":
        return sps.coo_matrix((np.asarray(spec["data"], dtype=float),
                               (np.asarray(spec["row"], dtype=np.int32),
                                np.asarray(spec["col"], dtype=np.int32))),
                              shape=tuple(int(v) for v in spec["shape"]))
    if f == "dia":
        d = np.asarray(spec["diag"], dtype=float)
        return sps.dia_matrix((d.reshape(1, -1), 0), shape=(d.size, d.size))
    raise ValueError(f)


def dense(spec) -> np.ndarray:
    f = spec["fmt"]
    if f == "dia":
        return np.diag(np.asarray(spec["diag"], dtype=float))
    m, n = (int(v) for v in spec["shape"])
    D = np.zeros((m, n))
    if f == "coo":
        for r, c, v in zip(spec["row"], spec["col"], spec["data"]):
            D[int(r), int(c)] += float(v)
        return D
    ip = spec["indptr"]
    for line in range(len(ip) - 1):
        for k in range(int(ip[line]), int(ip[line + 1])):
            j = int(spec["indices"][k])
            if f == "csr":
                D[line, j] += float(spec["data"][k])
            else:
                D[j, line] += float(spec["data"][k])
    return D


def lines(spec) -> int:
    """Number of compressed lines (rows of csr, columns of csc)."""
    return int(spec["shape"][0 if spec["fmt"] == "csr" else 1])


def random_compressed(rng, fmt=None, shape=None, density=None, unsorted=None,
                      explicit_zeros=None, max_dim=8, min_dim=0, first_id=1):
    """Random csr/csc storage.  Returns the spec."""
    fmt = fmt or str(rng.choice(["csr", "csc"]))
    if shape is None:
        shape = [int(rng.integers(min_dim, max_dim + 1)),
                 int(rng.integers(min_dim, max_dim + 1))]
    m, n = shape
    nl, no = (m, n) if fmt == "csr" else (n, m)
    density = float(rng.choice([0.0, 0.15, 0.4, 0.8, 1.0])) if density is None else density
    unsorted = bool(rng.random() < 0.5) if unsorted is None else unsorted
    explicit_zeros = bool(rng.random() < 0.4) if explicit_zeros is None else explicit_zeros
    indptr = [0]
    indices: list[int] = []
    data: list[float] = []
    nid = first_id
    for _ in range(nl):
        if no == 0:
            indptr.append(indptr[-1])
            continue
        # some lines empty on purpose
        if rng.random() < 0.15:
            indptr.append(indptr[-1])
            continue
        mask = rng.random(no) < density
        cols = np.flatnonzero(mask)
        if unsorted:
            cols = rng.permutation(cols)
        for j in cols:
            indices.append(int(j))
            if explicit_zeros and rng.random() < 0.25:
                data.append(0.0)
            else:
                data.append(float(nid))
                nid += 1
        indptr.append(len(indices))
    return {"fmt": fmt, "shape": [int(m), int(n)], "indptr": indptr, "indices": indices,
            "data": data}


def random_any_format(rng, shape, first_id=1):
    """Block in csr / csc / coo format (for the *_from_sparse_blocks functions)."""
    f = str(rng.choice(["csr", "csc", "coo"]))
    if f in ("csr", "csc"):
        return random_compressed(rng, fmt=f, shape=list(shape), first_id=first_id)
    m, n = shape
    row, col, data = [], [], []
    nid = first_id
    if m and n:
        dens = float(rng.choice([0.0, 0.3, 0.8]))
        pos = [(i, j) for i in range(m) for j in range(n) if rng.random() < dens]
        order = rng.permutation(len(pos)) if pos else []
        for k in order:
            i, j = pos[int(k)]
            row.append(i)
            col.append(j)
            data.append(float(nid))
            nid += 1
    return {"fmt": "coo", "shape": [int(m), int(n)], "row": row, "col": col, "data": data}


def n_values(spec) -> int:
    return len(spec.get("data", spec.get("diag", [])))


def random_index_set(rng, n, kind=None, unique=False, allow_empty=True):
    """Index set into range(n).  Returns {"kind": ..., "val": ...}.

    kinds: "array" (possibly repeated / unsorted), "sorted", "mask", "int", "empty".
    """
    kinds = ["array", "sorted", "mask", "int"] + (["empty"] if allow_empty else [])
    if n == 0:
        return {"kind": "empty", "val": []}
    kind = kind or str(rng.choice(kinds))
    if kind == "empty":
        return {"kind": "empty", "val": []}
    if kind == "int":
        return {"kind": "int", "val": int(rng.integers(0, n))}
    if kind == "mask":
        return {"kind": "mask", "val": [bool(b) for b in rng.random(n) < 0.5]}
    k = int(rng.integers(1, n + 1))
    if unique or kind == "sorted":
        v = rng.permutation(n)[:k]
        if kind == "sorted":
            v = np.sort(v)
    else:
        v = rng.integers(0, n, size=k)
    return {"kind": kind, "val": [int(x) for x in v]}


def index_value(ix):
    """The object handed to porepy for an index-set spec."""
    k = ix["kind"]
    if k == "int":
        return int(ix["val"])
    if k == "mask":
        return np.asarray(ix["val"], dtype=bool)
    return np.asarray(ix["val"], dtype=int)


def index_list(ix) -> list[int]:
    """The plain list of indices an index-set spec denotes."""
    k = ix["kind"]
    if k == "int":
        return [int(ix["val"])]
    if k == "mask":
        return [i for i, b in enumerate(ix["val"]) if b]
    return [int(v) for v in ix["val"]]
