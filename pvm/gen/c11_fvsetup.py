"""Shared set-up helpers of the finite-volume flow checks (C11, C12, C14).

Everything here is deterministic in its (JSON-able) arguments: tensors are given as 3x3
lists, boundary-type assignments by (mode, seed, probability).
"""
from __future__ import annotations

import numpy as np
import scipy.sparse as sps

import porepy as pp

from pvm.gen import grids as gg


# ------------------------------------------------------------------------- tensors
def random_spd(rng, dim: int, cond_max: float = 50.0, diagonal: bool = False) -> list:
    """3x3 SPD matrix (list of lists).  For dim == 2 the in-plane 2x2 block is random and
    K[2, 2] = 1 without cross terms (the grid's reference frame is the xy-plane)."""
    lam = np.exp(rng.uniform(0.0, np.log(cond_max), size=dim))
    lam = lam / lam.min() * 10.0 ** rng.uniform(-1.0, 1.0)
    if diagonal:
        Q = np.eye(dim)
    else:
        Q, _ = np.linalg.qr(rng.normal(size=(dim, dim)))
    Kd = Q @ np.diag(lam) @ Q.T
    Kd = 0.5 * (Kd + Kd.T)
    K = np.eye(3)
    K[:dim, :dim] = Kd
    return [[float(v) for v in row] for row in K]


def world_rotation(recipe) -> np.ndarray:
    """Rotation that the recipe applies to the reference frame (identity if none)."""
    if recipe.get("rigid") is not None:
        return gg.quat_to_rot(recipe["rigid"]["q"])
    return np.eye(3)


def tensor_from_matrix(K: np.ndarray, nc: int) -> pp.SecondOrderTensor:
    """Cell-wise constant full tensor."""
    K = np.asarray(K, dtype=float)
    k = pp.SecondOrderTensor(np.ones(nc))
    k.values = np.repeat(K[:, :, None], nc, axis=2).copy()
    return k


def tensor_from_cellwise(Kc: np.ndarray) -> pp.SecondOrderTensor:
    """Kc: (3, 3, nc)."""
    k = pp.SecondOrderTensor(np.ones(Kc.shape[2]))
    k.values = np.array(Kc, dtype=float)
    return k


def heterogeneous_spd(seed: int, dim: int, nc: int, cond_max: float = 20.0,
                      diagonal: bool = False) -> np.ndarray:
    """(3, 3, nc) cell-wise SPD tensors."""
    rng = np.random.default_rng(seed)
    out = np.zeros((3, 3, nc))
    for c in range(nc):
        out[:, :, c] = np.asarray(random_spd(rng, dim, cond_max, diagonal))
    return out


# --------------------------------------------------------------- boundary assignment
BC_MODES = ("all_dir", "mixed", "one_dir", "side")


def boundary_types(g, mode: str, seed: int, p_dir: float = 0.5):
    """Returns (boundary faces, is_dir over those faces).  At least one Dirichlet face."""
    bf = g.get_all_boundary_faces()
    rng = np.random.default_rng(seed)
    if mode == "all_dir":
        is_dir = np.ones(bf.size, dtype=bool)
    elif mode == "mixed":
        is_dir = rng.random(bf.size) < p_dir
    elif mode == "one_dir":
        is_dir = np.zeros(bf.size, dtype=bool)
    elif mode == "side":
        # Dirichlet on the faces whose centre has the smallest coordinate along the
        # direction of largest extent, Neumann elsewhere (the classical set-up)
        fc = g.face_centers[:, bf]
        ext = np.ptp(fc, axis=1)
        k = int(np.argmax(ext))
        is_dir = fc[k] < fc[k].min() + 1e-9 * max(ext[k], 1.0)
    else:
        raise ValueError(mode)
    if not is_dir.any():
        is_dir[int(rng.integers(0, bf.size))] = True
    return bf, is_dir


def make_bc(g, bf, is_dir) -> pp.BoundaryCondition:
    labels = np.where(is_dir, "dir", "neu")
    return pp.BoundaryCondition(g, bf, labels)


def boundary_sign(g) -> np.ndarray:
    """+1 / -1 per face: sign with which the (single) neighbour cell sees a boundary face
    (outward = sign * face normal); 0 on interior faces."""
    return np.asarray(g.cell_faces.sum(axis=1)).ravel().astype(float)


def linear_field_data(g, K, a, c, bf, is_dir):
    """Cell values, face values, exact face flux (along the face normal) and boundary data
    (Dirichlet: p at face centre, Neumann: exact outward flux) of p = a.x + c."""
    K = np.asarray(K, dtype=float)
    a = np.asarray(a, dtype=float)
    p_c = a @ g.cell_centers + c
    p_f = a @ g.face_centers + c
    q = -(K @ a) @ g.face_normals
    sgn = boundary_sign(g)
    bcv = np.zeros(g.num_faces)
    bcv[bf[is_dir]] = p_f[bf[is_dir]]
    bcv[bf[~is_dir]] = (sgn * q)[bf[~is_dir]]
    return p_c, p_f, q, bcv


def flow_data(k, bc, keyword="flow", **extra) -> dict:
    params = {"second_order_tensor": k, "bc": bc}
    params.update(extra)
    return pp.initialize_data({}, keyword, params)


def dense_max(m) -> float:
    m = sps.csr_matrix(m)
    return float(np.max(np.abs(m.data))) if m.nnz else 0.0
