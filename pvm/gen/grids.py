"""Seeded grid generators.  A grid is described by a JSON-able *recipe*:

    {"kind": "cart"|"tensor"|"tri"|"tet"|"delaunay"|"poly"|"prism",
     "dim": 1|2|3, "n": [nx,(ny),(nz)], "phys": [Lx,(Ly),(Lz)],
     "tseed": int       (tensor spacings / delaunay points / poly splits)
     "perturb": float   fraction of h_min, 0 = none, "pseed": int,
     "affine": 3x3 list or None,
     "rigid": {"q": [w,x,y,z], "t": [tx,ty,tz]} or None}      (embedding, any dim)

``build(recipe)`` returns a porepy grid with geometry computed.  ``measure(recipe)`` is
the domain measure known by construction, ``planar(recipe)`` says whether all faces are
planar (3-D).  Node perturbation keeps boundary nodes in their boundary line / plane and
corners fixed, so the measure stays known.  The generator validates its own draws
(``valid_cells``) - invalid draws are re-drawn by ``random_recipe``.
"""
from __future__ import annotations

import copy

import numpy as np
import scipy.sparse as sps

import porepy as pp


# ----------------------------------------------------------------------------- helpers
def quat_to_rot(q) -> np.ndarray:
    w, x, y, z = np.asarray(q, dtype=float) / np.linalg.norm(q)
    return np.array([
        [1 - 2 * (y * y + z * z), 2 * (x * y - z * w), 2 * (x * z + y * w)],
        [2 * (x * y + z * w), 1 - 2 * (x * x + z * z), 2 * (y * z - x * w)],
        [2 * (x * z - y * w), 2 * (y * z + x * w), 1 - 2 * (x * x + y * y)],
    ])


def random_rigid(rng, mode: str | None = None) -> dict:
    mode = mode or rng.choice(["random", "axis", "near_axis"], p=[0.6, 0.2, 0.2])
    if mode == "random":
        q = rng.normal(size=4)
    elif mode == "axis":
        # rotations by multiples of 90 degrees about a coordinate axis
        k = int(rng.integers(0, 3))
        ang = rng.choice([0.5, 1.0, 1.5]) * np.pi
        q = np.zeros(4)
        q[0] = np.cos(ang / 2)
        q[1 + k] = np.sin(ang / 2)
    else:
        k = int(rng.integers(0, 3))
        ang = rng.choice([0.5, 1.0, 1.5]) * np.pi + 1e-7 * rng.normal()
        q = 1e-7 * rng.normal(size=4)
        q[0] += np.cos(ang / 2)
        q[1 + k] += np.sin(ang / 2)
    q = q / np.linalg.norm(q)
    return {"q": [float(v) for v in q], "t": [float(v) for v in rng.uniform(-2, 2, 3)]}


def _tensor_coords(rng, n, L):
    w = rng.uniform(0.5, 1.5, size=n)
    x = np.concatenate([[0.0], np.cumsum(w)])
    return x / x[-1] * L


def poly_grid_from_cells(nodes: np.ndarray, cells: list[list[int]]) -> pp.Grid:
    """2-D grid from counter-clockwise node loops (consistently oriented)."""
    edge_id: dict[tuple[int, int], int] = {}
    fn = []
    rows, cols, vals = [], [], []
    for c, loop in enumerate(cells):
        m = len(loop)
        for k in range(m):
            a, b = loop[k], loop[(k + 1) % m]
            key = (min(a, b), max(a, b))
            if key not in edge_id:
                edge_id[key] = len(fn)
                fn.append((a, b))
                sgn = 1
            else:
                f = edge_id[key]
                sgn = 1 if fn[f] == (a, b) else -1
            rows.append(edge_id[key])
            cols.append(c)
            vals.append(sgn)
    nf = len(fn)
    indices = np.array(fn).ravel()
    indptr = np.arange(0, 2 * nf + 1, 2)
    face_nodes = sps.csc_matrix((np.ones(2 * nf, dtype=bool), indices, indptr),
                                shape=(nodes.shape[1], nf))
    cell_faces = sps.csc_matrix((np.array(vals), (np.array(rows), np.array(cols))),
                                shape=(nf, len(cells)))
    return pp.Grid(2, nodes, face_nodes, cell_faces, "PolyGrid")


def _poly_cells(n, tseed):
    """Cartesian nx x ny cells, some split along a diagonal (mixed tri / quad)."""
    nx, ny = n
    rng = np.random.default_rng(tseed)
    cells = []
    idx = lambda i, j: j * (nx + 1) + i  # noqa: E731
    for j in range(ny):
        for i in range(nx):
            a, b, c, d = idx(i, j), idx(i + 1, j), idx(i + 1, j + 1), idx(i, j + 1)
            r = rng.integers(0, 3)
            if r == 0:
                cells.append([a, b, c, d])
            elif r == 1:
                cells += [[a, b, c], [a, c, d]]
            else:
                cells += [[a, b, d], [b, c, d]]
    return cells


# ------------------------------------------------------------------------------- build
def _base(recipe):
    kind, dim = recipe["kind"], recipe["dim"]
    n = [int(v) for v in recipe["n"]]
    L = [float(v) for v in recipe.get("phys", [1.0] * dim)]
    tseed = int(recipe.get("tseed", 0))
    if kind == "cart":
        return pp.CartGrid(np.array(n), np.array(L))
    if kind == "tensor":
        rng = np.random.default_rng(tseed)
        xs = [_tensor_coords(rng, n[d], L[d]) for d in range(dim)]
        return pp.TensorGrid(*xs)
    if kind == "graded":
        # strongly graded 1-D grid: geometric spacing, ratio between neighbouring cells
        # 2..10 (boundary-layer meshes); smallest/largest cell down to ~1e-6
        rng = np.random.default_rng(tseed)
        q = float(rng.uniform(2.0, 10.0))
        w = q ** np.arange(n[0])
        if rng.random() < 0.5:
            w = w[::-1]
        x = np.concatenate([[0.0], np.cumsum(w)])
        return pp.TensorGrid(x / x[-1] * L[0])
    if kind == "nonconvex":
        # nx x ny blocks, each a 3x3 patch split into a thin L-shaped hexagon (not
        # star-shaped w.r.t. the mean of its face centres) and the complementary square;
        # the orientation of the L within the block is random.  Consistently oriented.
        nx, ny = n
        rng = np.random.default_rng(tseed)
        hx, hy = L[0] / (3 * nx), L[1] / (3 * ny)
        gx, gy = np.meshgrid(np.arange(3 * nx + 1), np.arange(3 * ny + 1))
        nodes = np.vstack([gx.ravel() * hx, gy.ravel() * hy, np.zeros(gx.size)])
        idx = lambda i, j: j * (3 * nx + 1) + i  # noqa: E731
        cells = []
        for bj in range(ny):
            for bi in range(nx):
                i0, j0 = 3 * bi, 3 * bj
                rot = int(rng.integers(0, 4))

                def P(a, b, i0=i0, j0=j0, rot=rot):
                    # rotate the local (a, b) in [0,3]^2 by rot * 90 degrees
                    for _ in range(rot):
                        a, b = 3 - b, a
                    return idx(i0 + a, j0 + b)
                # L: (0,0),(3,0),(3,1),(1,1),(1,3),(0,3) with all lattice nodes on its
                # boundary inserted (conforming with the neighbours)
                Lloop = [(0, 0), (1, 0), (2, 0), (3, 0), (3, 1), (2, 1), (1, 1), (1, 2),
                         (1, 3), (0, 3), (0, 2), (0, 1)]
                Sloop = [(1, 1), (2, 1), (3, 1), (3, 2), (3, 3), (2, 3), (1, 3), (1, 2)]
                cells.append([P(a, b) for a, b in Lloop])
                cells.append([P(a, b) for a, b in Sloop])
        return poly_grid_from_cells(nodes, cells)
    if kind == "tri":
        return pp.StructuredTriangleGrid(np.array(n), np.array(L))
    if kind == "tet":
        return pp.StructuredTetrahedralGrid(np.array(n), np.array(L))
    if kind == "delaunay":
        import scipy.spatial
        rng = np.random.default_rng(tseed)
        nx, ny = n
        bx = np.linspace(0, L[0], nx + 1)
        by = np.linspace(0, L[1], ny + 1)
        bpts = [(x, 0.0) for x in bx] + [(x, L[1]) for x in bx] + \
               [(0.0, y) for y in by[1:-1]] + [(L[0], y) for y in by[1:-1]]
        h = min(L[0] / nx, L[1] / ny)
        ipts = []
        tries = 0
        while len(ipts) < (nx - 1) * (ny - 1) + 1 and tries < 2000:
            tries += 1
            p = (rng.uniform(0.35 * h, L[0] - 0.35 * h), rng.uniform(0.35 * h, L[1] - 0.35 * h))
            if all((p[0] - q[0]) ** 2 + (p[1] - q[1]) ** 2 > (0.45 * h) ** 2
                   for q in ipts + bpts):
                ipts.append(p)
        pts = np.array(bpts + ipts).T
        tri = scipy.spatial.Delaunay(pts.T).simplices.T
        # drop degenerate (collinear boundary) triangles
        a, b, c = pts[:, tri[0]], pts[:, tri[1]], pts[:, tri[2]]
        area = 0.5 * np.abs((b[0] - a[0]) * (c[1] - a[1]) - (b[1] - a[1]) * (c[0] - a[0]))
        tri = tri[:, area > 1e-10 * L[0] * L[1]]
        return pp.TriangleGrid(np.vstack([pts, np.zeros(pts.shape[1])]), tri.astype(int))
    if kind == "poly":
        nx, ny = n
        x, y = np.meshgrid(np.linspace(0, L[0], nx + 1), np.linspace(0, L[1], ny + 1))
        nodes = np.vstack([x.ravel(), y.ravel(), np.zeros(x.size)])
        return poly_grid_from_cells(nodes, _poly_cells(n, tseed))
    if kind == "prism":
        # extrusion of a poly / tri grid: prisms and hexahedra
        base = dict(recipe)
        base.update(kind=recipe.get("base", "poly"), dim=2, n=n[:2], phys=L[:2],
                    perturb=0.0, affine=None, rigid=None)
        g2 = _base(base)
        g2.compute_geometry()
        z = np.linspace(0, L[2], n[2] + 1)
        g3, _, _ = pp.grid_extrusion.extrude_grid(g2, z)
        return g3
    raise ValueError(kind)


def _box_perturb(g, L, frac, pseed):
    """Move nodes by <= frac*h_min; boundary nodes stay in their boundary planes."""
    rng = np.random.default_rng(pseed)
    dim = g.dim
    g.compute_geometry()
    if dim == 1:
        h = np.min(g.cell_volumes)
    else:
        h = np.min(g.face_areas) if dim == 2 else np.sqrt(np.min(g.face_areas))
        h = min(h, np.min(g.cell_volumes) ** (1.0 / dim))
    d = np.zeros_like(g.nodes)
    d[:dim] = rng.uniform(-1, 1, size=(dim, g.num_nodes)) * frac * h
    for k in range(dim):
        on = (np.abs(g.nodes[k]) < 1e-12 * L[k]) | (np.abs(g.nodes[k] - L[k]) < 1e-12 * L[k])
        d[k, on] = 0.0
    g.nodes = g.nodes + d


def build(recipe, compute_geometry: bool = True):
    g = _base(recipe)
    dim = recipe["dim"]
    L = [float(v) for v in recipe.get("phys", [1.0] * dim)]
    if recipe.get("perturb"):
        _box_perturb(g, L, float(recipe["perturb"]), int(recipe.get("pseed", 0)))
    if recipe.get("affine") is not None:
        A = np.asarray(recipe["affine"], dtype=float)
        g.nodes = A @ g.nodes
    if recipe.get("rigid") is not None:
        R = quat_to_rot(recipe["rigid"]["q"])
        t = np.asarray(recipe["rigid"]["t"], dtype=float).reshape(3, 1)
        g.nodes = R @ g.nodes + t
    if compute_geometry:
        g.compute_geometry()
    return g


def measure(recipe) -> float:
    dim = recipe["dim"]
    L = [float(v) for v in recipe.get("phys", [1.0] * dim)]
    m = float(np.prod(L[:dim]))
    if recipe.get("affine") is not None:
        A = np.asarray(recipe["affine"], dtype=float)
        m *= abs(np.linalg.det(A[:dim, :dim]))
    return m


def planar(recipe) -> bool:
    """Are all faces planar by construction?"""
    if recipe["dim"] < 3:
        return True
    if recipe["kind"] == "tet":
        return True
    return not recipe.get("perturb")


def convex(recipe) -> bool:
    """Are all cells convex by construction?"""
    return recipe["kind"] != "nonconvex"


def is_simplex(recipe) -> bool:
    return recipe["kind"] in ("tri", "tet", "delaunay") or recipe["dim"] == 1


def k_orthogonal(recipe) -> bool:
    return (recipe["kind"] in ("cart", "tensor") and not recipe.get("perturb")
            and recipe.get("affine") is None)


# --------------------------------------------------------------------------- validity
def valid_cells(g) -> bool:
    """Generator's own validity predicate (independent of compute_geometry results
    for 2-D: every cell is a strictly convex polygon)."""
    # thresholds are relative to the extent of the grid (recipes may be scaled)
    ext = float(np.max(np.ptp(g.nodes, axis=1))) or 1.0
    if g.dim == 1:
        return bool(np.all(g.cell_volumes > 1e-12 * ext))
    if g.dim == 2:
        R = pp.map_geometry.project_plane_matrix(g.nodes, check_planar=False) \
            if np.ptp(g.nodes[2]) > 1e-14 else np.eye(3)
        xy = (R @ g.nodes)[:2]
        cn = g.cell_nodes().tocsc()
        for c in range(g.num_cells):
            idx = cn.indices[cn.indptr[c]:cn.indptr[c + 1]]
            p = xy[:, idx]
            ctr = p.mean(axis=1, keepdims=True)
            ang = np.arctan2(p[1] - ctr[1], p[0] - ctr[0])
            p = p[:, np.argsort(ang)]
            m = p.shape[1]
            cr = []
            for k in range(m):
                a, b, c2 = p[:, k], p[:, (k + 1) % m], p[:, (k + 2) % m]
                cr.append((b[0] - a[0]) * (c2[1] - b[1]) - (b[1] - a[1]) * (c2[0] - b[0]))
            if min(cr) <= 1e-10 * ext ** 2:
                return False
        return True
    # 3-D: positive volumes and face centres strictly outside-ward of cell centres
    if not np.all(g.cell_volumes > 1e-14 * ext ** 3):
        return False
    fi, ci, sgn = sps.find(g.cell_faces)
    d = np.sum(g.face_normals[:, fi] * (g.face_centers[:, fi] - g.cell_centers[:, ci]), axis=0)
    return bool(np.all(sgn * d > 0))


# -------------------------------------------------------------------------- random draws
KINDS = {1: ["cart", "tensor"],
         2: ["cart", "tensor", "tri", "delaunay", "poly"],
         3: ["cart", "tensor", "tet", "prism"]}


# opt-in kinds (never drawn unless named in ``kinds``): cells that are not convex /
# extreme grading - only for checks whose property does not presuppose convex cells
EXTRA_KINDS = {1: ["graded"], 2: ["nonconvex"], 3: []}


def random_recipe(rng, dims=(1, 2, 3), kinds=None, max_cells=60, perturb=True,
                  affine=True, rigid=False, planar_only=False, simplex_only=False,
                  scales=None):
    """Draw a valid recipe.  ``rigid``: False | True | "embedded" (only dim<3)."""
    for _ in range(50):
        dim = int(rng.choice(list(dims)))
        ks = [k for k in KINDS[dim] if (kinds is None or k in kinds)]
        if kinds is not None:
            ks += [k for k in EXTRA_KINDS[dim] if k in kinds]
        if simplex_only:
            ks = [k for k in ks if k in ("tri", "tet", "delaunay")] or (KINDS[1] if dim == 1 else [])
        if not ks:
            continue
        kind = str(rng.choice(ks))
        if dim == 1:
            n = [int(rng.integers(1, 9))]
            if kind == "graded":
                n = [int(rng.integers(3, 8))]
        elif dim == 2:
            n = [int(rng.integers(1, 6)), int(rng.integers(1, 6))]
            if kind == "nonconvex":
                n = [int(rng.integers(1, 4)), int(rng.integers(1, 3))]
        else:
            n = [int(rng.integers(1, 4)), int(rng.integers(1, 4)), int(rng.integers(1, 3))]
        L = [float(np.round(rng.uniform(0.5, 3.0), 3)) for _ in range(dim)]
        if scales is not None and rng.random() < 0.2:
            # physical size far from one (micrometre / kilometre domains): absolute
            # tolerances hidden in the code under test show up only here
            sc = float(rng.choice(list(scales)))
            L = [v * sc for v in L]
        r = {"kind": kind, "dim": dim, "n": n, "phys": L,
             "tseed": int(rng.integers(0, 2**31)), "perturb": 0.0, "pseed": 0,
             "affine": None, "rigid": None}
        if perturb and rng.random() < 0.5 and kind not in ("delaunay", "nonconvex", "graded"):
            if not (planar_only and dim == 3 and kind != "tet"):
                r["perturb"] = float(np.round(rng.uniform(0.05, 0.2), 3))
                r["pseed"] = int(rng.integers(0, 2**31))
        if affine and rng.random() < 0.3:
            A = np.eye(3)
            A[:dim, :dim] = np.eye(dim) + rng.uniform(-0.3, 0.3, size=(dim, dim))
            r["affine"] = [[float(np.round(v, 4)) for v in row] for row in A]
        if rigid is True or (rigid == "embedded" and dim < 3):
            if rng.random() < 0.8:
                r["rigid"] = random_rigid(rng)
        try:
            g = build(r)
        except Exception:
            continue
        if g.num_cells > max_cells:
            continue
        if kind == "nonconvex":
            if np.all(g.cell_volumes > 0):
                return r
            continue
        if valid_cells(g):
            return r
    # always-valid fallback
    return {"kind": "cart", "dim": int(list(dims)[0]), "n": [2] * int(list(dims)[0]),
            "phys": [1.0] * int(list(dims)[0]), "tseed": 0, "perturb": 0.0, "pseed": 0,
            "affine": None, "rigid": None}


FLOOR = [
    {"kind": "cart", "dim": 1, "n": [1], "phys": [1.0]},
    {"kind": "tensor", "dim": 1, "n": [5], "phys": [2.0], "tseed": 3},
    {"kind": "cart", "dim": 2, "n": [1, 1], "phys": [1.0, 1.0]},
    {"kind": "cart", "dim": 2, "n": [3, 2], "phys": [3.0, 1.0]},
    {"kind": "tensor", "dim": 2, "n": [3, 4], "phys": [1.0, 2.0], "tseed": 5},
    {"kind": "tri", "dim": 2, "n": [2, 2], "phys": [1.0, 1.0]},
    {"kind": "tri", "dim": 2, "n": [3, 2], "phys": [1.0, 1.0], "perturb": 0.15, "pseed": 1},
    {"kind": "delaunay", "dim": 2, "n": [3, 3], "phys": [1.0, 1.5], "tseed": 7},
    {"kind": "poly", "dim": 2, "n": [3, 3], "phys": [1.0, 1.0], "tseed": 2},
    {"kind": "poly", "dim": 2, "n": [2, 3], "phys": [1.0, 1.0], "tseed": 4,
     "perturb": 0.15, "pseed": 9},
    {"kind": "cart", "dim": 3, "n": [2, 2, 2], "phys": [1.0, 1.0, 1.0]},
    {"kind": "cart", "dim": 3, "n": [2, 2, 1], "phys": [1.0, 2.0, 1.0], "perturb": 0.15,
     "pseed": 3},
    {"kind": "tensor", "dim": 3, "n": [2, 3, 2], "phys": [1.0, 1.0, 2.0], "tseed": 8},
    {"kind": "tet", "dim": 3, "n": [2, 1, 1], "phys": [1.0, 1.0, 1.0]},
    {"kind": "tet", "dim": 3, "n": [2, 2, 1], "phys": [1.0, 1.0, 1.0], "perturb": 0.15,
     "pseed": 5},
    {"kind": "prism", "dim": 3, "n": [2, 2, 2], "phys": [1.0, 1.0, 1.0], "tseed": 6},
    {"kind": "cart", "dim": 2, "n": [2, 2], "phys": [1.0, 1.0],
     "rigid": {"q": [0.5, 0.5, 0.5, 0.5], "t": [1.0, -2.0, 0.5]}},
    {"kind": "tri", "dim": 2, "n": [2, 1], "phys": [1.0, 1.0],
     "rigid": {"q": [0.9, 0.1, -0.3, 0.2], "t": [0.0, 0.0, 1.0]}},
    {"kind": "tensor", "dim": 1, "n": [4], "phys": [1.0], "tseed": 1,
     "rigid": {"q": [0.3, -0.5, 0.7, 0.1], "t": [1.0, 1.0, 1.0]}},
]


FLOOR_EXTRA = [
    {"kind": "graded", "dim": 1, "n": [6], "phys": [1.0], "tseed": 1},
    {"kind": "graded", "dim": 1, "n": [7], "phys": [2.0], "tseed": 4,
     "rigid": {"q": [0.3, -0.5, 0.7, 0.1], "t": [1.0, 1.0, 1.0]}},
    {"kind": "nonconvex", "dim": 2, "n": [1, 1], "phys": [3.0, 3.0], "tseed": 0},
    {"kind": "nonconvex", "dim": 2, "n": [2, 2], "phys": [2.0, 3.0], "tseed": 3},
    # seen "from behind": rotation by pi about the x-axis
    {"kind": "nonconvex", "dim": 2, "n": [2, 1], "phys": [2.0, 1.0], "tseed": 5,
     "rigid": {"q": [0.0, 1.0, 0.0, 0.0], "t": [0.0, 0.5, 1.0]}},
    {"kind": "nonconvex", "dim": 2, "n": [1, 2], "phys": [1.0, 2.0], "tseed": 7,
     "rigid": {"q": [0.2, 0.9, -0.3, 0.1], "t": [0.0, 0.0, 1.0]}},
]


def floor_extra(kinds=("graded", "nonconvex"), rigid=True):
    return [copy.deepcopy(r) for r in FLOOR_EXTRA
            if r["kind"] in kinds and (rigid or not r.get("rigid"))]


def floor_recipes(dims=(1, 2, 3), kinds=None, rigid=True):
    out = []
    for r in FLOOR:
        if r["dim"] not in dims:
            continue
        if kinds is not None and r["kind"] not in kinds:
            continue
        if not rigid and r.get("rigid"):
            continue
        out.append(copy.deepcopy(r))
    return out
