"""Synthetic equation systems on md-grids (used by C06 and C07).

A system is described by a JSON-able ``spec``:

    {"vars": [{"name": "u0", "kind": "sd"|"intf", "sel": seed, "p": prob, "dof": {...}}, ...],
     "eqs":  [{"name": "e0", "kind": "sd"|"intf", "sel": seed, "p": prob, "per": {...}}, ...]}

``resolve(mdg, spec)`` turns the seeds into concrete grid lists (random list order),
``layout(...)`` computes - from grid entity counts only - the row ranges every equation
contributes per grid (equations in the order they are set, grids in md-grid order), and
``realize(...)`` builds a real ``EquationSystem`` whose equation ``e`` is the operator

    lin_e + 0.05 * sin(lin_e) - c_e,   lin_e = sum_k SparseArray(J[rows_e][:, cols_k]) @ u_k

for a given global matrix ``J`` (rows: all equation rows, columns: global dofs).  Distinct
random rows of ``J`` make every assembled row identify its own equation and grid.
"""
from __future__ import annotations

import numpy as np
import scipy.sparse as sps

from pvm.ref.c05_layout import RefLayout, block_size


def pick_grids(pool, sel, p):
    rng = np.random.default_rng(sel)
    g = [x for x in pool if rng.random() < p]
    if not g and pool:
        g = [pool[int(rng.integers(0, len(pool)))]]
    rng.shuffle(g)
    return g


def resolve(mdg, spec):
    """Concrete grid lists for variables and equations (deterministic in spec)."""
    sds = list(mdg.subdomains())
    intfs = list(mdg.interfaces())
    out = {"vars": [], "eqs": []}
    for key, dkey in (("vars", "dof"), ("eqs", "per")):
        for s in spec[key]:
            kind = s["kind"] if (s["kind"] == "sd" or intfs) else "sd"
            pool = intfs if kind == "intf" else sds
            d = {k: int(v) for k, v in s[dkey].items()}
            if kind == "intf":
                d = {"cells": max(1, d.get("cells", 1))}
            grids = pick_grids(pool, s["sel"], s["p"])
            if sum(block_size(g, d, kind == "intf") for g in grids) == 0:
                d["cells"] = 1            # keep every variable / equation non-empty
            out[key].append({"name": s["name"], "kind": kind, "grids": grids, dkey: d})
    return out


class EqBlock:
    """Rows of one equation: per grid (md-grid order) a range local to the equation."""

    def __init__(self, name, kind, grids_md_order, sizes, offset):
        self.name = name
        self.kind = kind
        self.grids = grids_md_order
        self.sizes = sizes
        self.offset = offset                 # first row in the full system
        self.total = int(sum(sizes))
        self.local = {}
        a = 0
        for g, s in zip(grids_md_order, sizes):
            self.local[id(g)] = np.arange(a, a + s)
            a += s

    def rows(self, grids=None):
        """Global row indices of the equation restricted to ``grids`` (None = all), in
        md-grid order regardless of the order of ``grids``."""
        if grids is None:
            return self.offset + np.arange(self.total)
        want = {id(g) for g in grids}
        parts = [self.local[id(g)] for g in self.grids if id(g) in want]
        if not parts:
            return np.zeros(0, dtype=int)
        return self.offset + np.concatenate(parts)


def eq_layout(mdg, eqs):
    """eqs: list of dicts(name, kind, grids, per) in the order they will be set."""
    order = list(mdg.subdomains()) + list(mdg.interfaces())
    pos = {id(g): k for k, g in enumerate(order)}
    blocks = []
    off = 0
    for e in eqs:
        gs = sorted(e["grids"], key=lambda g: pos[id(g)])
        sizes = [block_size(g, e["per"], e["kind"] == "intf") for g in gs]
        b = EqBlock(e["name"], e["kind"], gs, sizes, off)
        off += b.total
        blocks.append(b)
    return blocks, off


class System:
    pass


def realize(mdg, res, J, c, x0, scale=0.05):
    """Build the real EquationSystem for resolved variables/equations and data J, c, x0."""
    import porepy as pp

    S = System()
    es = pp.ad.EquationSystem(mdg)
    ref = RefLayout(mdg)
    S.mdvars = {}
    S.entries = {}
    for k, v in enumerate(res["vars"]):
        kw = {"subdomains": v["grids"]} if v["kind"] == "sd" else {"interfaces": v["grids"]}
        md = es.create_variables(v["name"], dict(v["dof"]), **kw)
        S.mdvars[v["name"]] = md
        S.entries[v["name"]] = [ref.add(sv, v["name"], g, v["dof"], call=k)
                                for sv, g in zip(md.sub_vars, v["grids"])]
    n = ref.num_dofs()
    blocks, m = eq_layout(mdg, res["eqs"])
    assert J.shape == (m, n), (J.shape, m, n)
    es.set_variable_values(np.array(x0, dtype=float), iterate_index=0)
    es.set_variable_values(np.array(x0, dtype=float), time_step_index=0)
    bl = ref.blocks()
    sin = pp.ad.Function(pp.ad.functions.sin, "sin")
    S.ops = {}
    for b, e in zip(blocks, res["eqs"]):
        r = b.rows()
        lin = None
        for name, md in S.mdvars.items():
            # columns in the md-variable's own sub-variable order
            cols = np.concatenate([np.arange(*bl[id(en.var)]) for en in S.entries[name]])
            M = sps.csr_matrix(J[r][:, cols])
            if M.nnz == 0:
                continue
            term = pp.ad.SparseArray(M) @ md
            lin = term if lin is None else lin + term
        if lin is None:
            name, md = next(iter(S.mdvars.items()))
            cols = np.concatenate([np.arange(*bl[id(en.var)]) for en in S.entries[name]])
            lin = pp.ad.SparseArray(sps.csr_matrix((r.size, cols.size))) @ md
        op = lin + pp.ad.Scalar(scale) * sin(lin) - pp.ad.DenseArray(np.array(c[r], dtype=float))
        op.set_name(b.name)
        es.set_equation(op, list(e["grids"]), dict(e["per"]))
        S.ops[b.name] = op
    S.es, S.ref, S.blocks, S.n, S.m = es, ref, blocks, n, m
    S.block = {b.name: b for b in blocks}
    return S


def make_operator(S, Jrows, crows, name, scale=0.05):
    """The operator of ``realize`` for one equation given its rows of J and c (used to
    re-define an equation of an existing system)."""
    import porepy as pp

    bl = S.ref.blocks()
    sin = pp.ad.Function(pp.ad.functions.sin, "sin")
    lin = None
    for vname, md in S.mdvars.items():
        cols = np.concatenate([np.arange(*bl[id(en.var)]) for en in S.entries[vname]])
        M = sps.csr_matrix(Jrows[:, cols])
        if M.nnz == 0:
            continue
        term = pp.ad.SparseArray(M) @ md
        lin = term if lin is None else lin + term
    if lin is None:
        vname, md = next(iter(S.mdvars.items()))
        cols = np.concatenate([np.arange(*bl[id(en.var)]) for en in S.entries[vname]])
        lin = pp.ad.SparseArray(sps.csr_matrix((Jrows.shape[0], cols.size))) @ md
    op = lin + pp.ad.Scalar(scale) * sin(lin) - pp.ad.DenseArray(np.array(crows, dtype=float))
    op.set_name(name)
    return op


def sizes(mdg, res):
    """(number of rows, number of dofs) of a resolved spec, from entity counts only."""
    n = sum(block_size(g, v["dof"], v["kind"] == "intf") for v in res["vars"] for g in v["grids"])
    _, m = eq_layout(mdg, res["eqs"])
    return m, n


def random_J(rng, m, n, density=0.35):
    J = rng.uniform(-1.0, 1.0, size=(m, n)) * (rng.random((m, n)) < density)
    for i in range(m):                       # every row carries information
        if n and not np.any(J[i]):
            J[i, int(rng.integers(0, n))] = rng.uniform(0.5, 1.0)
    return J
