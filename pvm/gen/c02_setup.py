"""C02 workload: a mixed-dimensional grid, an EquationSystem with variables (cell / face /
node dofs on subdomains and interfaces), time-dependent arrays, a fingerprinted state with
stored time-step / iterate history, and the translation of the mini-AST of
``pvm.ref.c01_dual`` into (1) a ``pp.ad.Operator`` tree built with PYTHON OPERATORS,
(2) forward-mode ``AdArray`` objects built directly from the state, (3) dense dual numbers.

Skeleton (JSON-able, part of the case):
    {"mdg": recipe of pvm.gen.mdg,
     "vars":   [{"name", "where": "sd"|"intf", "dof": {"cells":..,"faces":..,"nodes":..},
                 "grids": [indices into mdg.subdomains() / mdg.interfaces()], "box": [lo, hi]}],
     "tdense": [{"name", "where": "sd"|"intf"|"bg", "grids": [...], "box": [lo, hi]}],
     "depth": stored time steps / iterates, "seed": int, "state_mode": "explicit"|"stored"}

All values are derived from ``seed`` per (object, grid, slot) with independent streams,
so every stored slot carries its own fingerprint: a read from a wrong time-step / iterate
index, a wrong grid or a wrong variable cannot reproduce the expected numbers.
"""
from __future__ import annotations

import numpy as np
import scipy.sparse as sps

import porepy as pp

from pvm.gen import c01_expr as G
from pvm.gen import mdg as gm
from pvm.ref import c01_dual as R

DOF_SD = [{"cells": 1}, {"cells": 1}, {"cells": 2}, {"faces": 1}, {"nodes": 1},
          {"cells": 1, "faces": 1}, {"cells": 3}]
DOF_INTF = [{"cells": 1}, {"cells": 1}, {"cells": 2}]
BOXES = [(0.3, 2.5), (0.3, 2.5), (1.2, 3.0), (-2.0, 2.0), (-0.9, 0.9), (-3.0, -0.3)]
SLOT = {"state": 0, "ts": 1, "it": 2}


def random_skeleton(rng, floor_recipe=None):
    if floor_recipe is not None:
        rec = floor_recipe
    else:
        mesh = "cartesian" if rng.random() < 0.85 else "simplex"
        rec = gm.random_recipe(rng, dims=(2, 3), meshes=(mesh,), max_fracs=2, p3d=0.15)
    return {"mdg": rec, "seed": int(rng.integers(1, 2 ** 31)), "depth": 3,
            "state_mode": "explicit" if rng.random() < 0.8 else "stored",
            "vars": None, "tdense": None, "vseed": int(rng.integers(1, 2 ** 31))}


def _fill_objects(sk, nsd, nintf, nbg):
    """Choose variables / time-dependent arrays once the grid counts are known."""
    rng = np.random.default_rng(sk["vseed"])
    vars_ = []
    nv = int(rng.integers(2, 5))
    for k in range(nv):
        on_intf = nintf > 0 and rng.random() < 0.3
        if on_intf:
            cnt = int(rng.integers(1, nintf + 1))
            grids = [int(x) for x in rng.choice(nintf, size=cnt, replace=False)]
            dof = dict(DOF_INTF[int(rng.integers(len(DOF_INTF)))])
        else:
            cnt = int(rng.integers(1, nsd + 1))
            if k == 0:
                cnt = nsd
            grids = [int(x) for x in rng.choice(nsd, size=cnt, replace=False)]
            dof = dict(DOF_SD[int(rng.integers(len(DOF_SD)))])
            if k == 0:
                dof = {"cells": 1}
        lo, hi = BOXES[int(rng.integers(len(BOXES)))]
        vars_.append({"name": f"v{k}", "where": "intf" if on_intf else "sd", "dof": dof,
                      "grids": grids, "box": [lo, hi]})
    tds = []
    for k in range(int(rng.integers(1, 3))):
        opts = ["sd"] + (["intf"] if nintf else []) + (["bg"] if nbg else [])
        where = str(rng.choice(opts))
        tot = {"sd": nsd, "intf": nintf, "bg": nbg}[where]
        cnt = int(rng.integers(1, tot + 1))
        grids = [int(x) for x in rng.choice(tot, size=cnt, replace=False)]
        lo, hi = BOXES[int(rng.integers(len(BOXES)))]
        tds.append({"name": f"t{k}", "where": where, "grids": grids, "box": [lo, hi]})
    sk["vars"] = vars_
    sk["tdense"] = tds


class Setup:
    """Builds the real porepy objects of a skeleton and serves leaf values / dofs."""

    def __init__(self, sk):
        self.sk = sk
        self.mdg = gm.build(sk["mdg"])
        self.sds = list(self.mdg.subdomains())
        self.intfs = list(self.mdg.interfaces())
        self.bgs = [b for b in self.mdg.boundaries() if b.num_cells > 0]
        if sk.get("vars") is None:
            _fill_objects(sk, len(self.sds), len(self.intfs), len(self.bgs))
        self.D = int(sk["depth"])
        self._members = {}
        self.es = pp.ad.EquationSystem(self.mdg)
        self.var_objs = []          # per variable spec: list of atomic Variables (grid order)
        self.md_created = []
        for spec in sk["vars"]:
            grids = [self.sds[i] if spec["where"] == "sd" else self.intfs[i]
                     for i in spec["grids"]]
            if spec["where"] == "sd":
                md = self.es.create_variables(spec["name"], dict(spec["dof"]), subdomains=grids)
            else:
                md = self.es.create_variables(spec["name"], dict(spec["dof"]), interfaces=grids)
            by_dom = {id(v.domain): v for v in md.sub_vars}
            self.var_objs.append([by_dom[id(g)] for g in grids])
            self.md_created.append(md)
        self.N = int(self.es.num_dofs())
        self.td_grids = []
        for spec in sk["tdense"]:
            src = {"sd": self.sds, "intf": self.intfs, "bg": self.bgs}[spec["where"]]
            self.td_grids.append([src[i] for i in spec["grids"]])
        self._store()

    # ----------------------------------------------------------------- fingerprints
    def _vals(self, kind, obj, gi, slot, idx, n, box):
        rng = np.random.default_rng([int(self.sk["seed"]), kind, obj, gi, SLOT[slot], idx])
        return np.round(rng.uniform(box[0], box[1], size=n), 6)

    def var_values(self, vi, gi, slot, idx=0):
        spec = self.sk["vars"][vi]
        n = self.var_objs[vi][gi].size
        if slot == "state" and self.sk["state_mode"] == "stored":
            slot, idx = "it", 0
        return self._vals(0, vi, gi, slot, idx, n, spec["box"])

    def td_values(self, ti, gi, slot, idx=0):
        spec = self.sk["tdense"][ti]
        g = self.td_grids[ti][gi]
        return self._vals(1, ti, gi, slot, idx, g.num_cells, spec["box"])

    def _data(self, g):
        if isinstance(g, pp.MortarGrid):
            return self.mdg.interface_data(g)
        if isinstance(g, pp.BoundaryGrid):
            return self.mdg.boundary_grid_data(g)
        return self.mdg.subdomain_data(g)

    def _store(self):
        """Write the stored history with the documented setter; build the state."""
        for vi, spec in enumerate(self.sk["vars"]):
            for gi, var in enumerate(self.var_objs[vi]):
                d = self._data(var.domain)
                for k in range(self.D):
                    pp.set_solution_values(spec["name"], self.var_values(vi, gi, "ts", k), d,
                                           time_step_index=k)
                    pp.set_solution_values(spec["name"], self.var_values(vi, gi, "it", k), d,
                                           iterate_index=k)
        for ti, spec in enumerate(self.sk["tdense"]):
            for gi, g in enumerate(self.td_grids[ti]):
                d = self._data(g)
                for k in range(self.D):
                    pp.set_solution_values(spec["name"], self.td_values(ti, gi, "ts", k), d,
                                           time_step_index=k)
                pp.set_solution_values(spec["name"], self.td_values(ti, gi, "it", 0), d,
                                       iterate_index=0)
        self.state = np.zeros(self.N)
        self.dofs = {}
        for vi in range(len(self.sk["vars"])):
            for gi, var in enumerate(self.var_objs[vi]):
                dofs = self.es.dofs_of([var])
                self.dofs[(vi, gi)] = dofs
                self.state[dofs] = self.var_values(vi, gi, "state")

    def state_arg(self):
        return None if self.sk["state_mode"] == "stored" else self.state.copy()

    # ------------------------------------------------------------------ leaf values
    def md_members(self, node):
        """(vi, [gi ...]) of an mdvar node in the order of the REAL md-variable's
        sub-variables (observed at the public boundary)."""
        vi = node["v"]
        key = (vi, None if node.get("gs") is None else tuple(node["gs"]))
        if key not in self._members:
            md = self.md_object(node)
            pos = {id(v.domain): k for k, v in enumerate(self.var_objs[vi])}
            self._members[key] = [pos[id(sv.domain)] for sv in md.sub_vars]
        return vi, self._members[key]

    def md_object(self, node):
        vi = node["v"]
        name = self.sk["vars"][vi]["name"]
        if node.get("gs") is None:
            return self.es.md_variable(name)
        doms = [self.var_objs[vi][k].domain for k in node["gs"]]
        return self.es.md_variable(name, doms)

    def leaf_value(self, node, ts, it):
        """Value of a vector leaf in the context (ts, it); None if undefined there."""
        op = node["op"]
        if op in ("var", "mdvar"):
            if ts > 0 and it > 0:
                return None
            if ts > self.D or it > self.D:
                return None
            if op == "var":
                vi, gis = node["v"], [node["g"]]
            else:
                vi, gis = self.md_members(node)
            if ts > 0:
                parts = [self.var_values(vi, g, "ts", ts - 1) for g in gis]
            elif it > 0:
                parts = [self.var_values(vi, g, "it", it - 1) for g in gis]
            else:
                parts = [self.var_values(vi, g, "state") for g in gis]
            return np.concatenate(parts) if parts else np.zeros(0)
        if op == "tdense":
            ti = node["t"]
            if ts > self.D:
                return None
            n = len(self.td_grids[ti])
            if ts > 0:
                parts = [self.td_values(ti, g, "ts", ts - 1) for g in range(n)]
            else:
                parts = [self.td_values(ti, g, "it", 0) for g in range(n)]
            return np.concatenate(parts) if parts else np.zeros(0)
        raise KeyError(op)

    def leaf_dofs(self, node):
        if node["op"] == "var":
            return self.dofs[(node["v"], node["g"])]
        vi, gis = self.md_members(node)
        return np.concatenate([self.dofs[(vi, g)] for g in gis]) if gis \
            else np.zeros(0, dtype=int)

    # ------------------------------------------------------------------------ pool
    def pool(self, rng):
        pool = []

        def entry(node, typ):
            v0 = self.leaf_value(node, 0, 0)
            if v0 is None or v0.size == 0:
                return
            pool.append({"node": node, "size": int(v0.size), "typ": typ,
                         "val": (lambda ts, it, node=node: self.leaf_value(node, ts, it))})

        for vi, spec in enumerate(self.sk["vars"]):
            ng = len(spec["grids"])
            for gi in range(ng):
                entry({"op": "var", "v": vi, "g": gi}, "ad")
            entry({"op": "mdvar", "v": vi, "gs": None}, "ad")
            if ng > 1:
                for _ in range(2):
                    cnt = int(rng.integers(1, ng + 1))
                    gs = [int(x) for x in rng.choice(ng, size=cnt, replace=False)]
                    entry({"op": "mdvar", "v": vi, "gs": gs}, "ad")
        for ti in range(len(self.sk["tdense"])):
            entry({"op": "tdense", "t": ti}, "arr")
        return pool

    # --------------------------------------------------------- (1) operator building
    def operator_algebra(self, funcs, on_op):
        def leaf(node, alg):
            op = node["op"]
            if op == "var":
                return self.var_objs[node["v"]][node["g"]]
            if op == "mdvar":
                return self.md_object(node)
            if op == "tdense":
                return pp.ad.TimeDependentDenseArray(self.sk["tdense"][node["t"]]["name"],
                                                     self.td_grids[node["t"]])
            if op == "scalar":
                return pp.ad.Scalar(node["v"])
            if op == "dense":
                return pp.ad.DenseArray(np.asarray(node["v"], dtype=float))
            if op == "sparse":
                return pp.ad.SparseArray(R.make_sparse(node))
            if op == "proj":
                return self._projection(node)
            if op == "projsum":
                return pp.ad.sum_projection_list([self._projection(p) for p in node["projs"]])
            raise KeyError(op)

        def wrapped(name):
            def make(p):
                f = pp.ad.Function(funcs[name](p), name)
                return f
            return make

        def shift(node, thunk, alg):
            sub = thunk()
            k = int(node["k"])
            on_op("Operator.previous_timestep" if node["op"] == "prev_ts"
                  else "Operator.previous_iteration")
            if node["op"] == "prev_ts":
                return sub.previous_timestep(steps=k)
            return sub.previous_iteration(steps=k)

        def tinc(node, thunk, alg):
            sub = thunk()
            if node["op"] == "dt":
                on_op("pp.ad.dt")
                return pp.ad.dt(sub, pp.ad.Scalar(float(node["dt"])))
            on_op("pp.ad.time_increment")
            return pp.ad.time_increment(sub)

        table = {n: wrapped(n) for n in funcs}
        return R.PythonOpsAlgebra(leaf, table, on_op=on_op, shift=shift, time_increment=tinc)

    @staticmethod
    def _projection(node):
        P = pp.ad.Projection(domain_indices=np.asarray(node["dom"], dtype=int),
                             range_indices=np.asarray(node["ran"], dtype=int),
                             domain_size=int(node["dsize"]), range_size=int(node["rsize"]))
        return P.T if node.get("T") else P

    # ----------------------------------------------- (2) direct forward-mode evaluation
    def adarray_algebra(self, funcs, on_op):
        N = self.N

        def leaf(node, alg):
            op = node["op"]
            if op in ("var", "mdvar"):
                v = self.leaf_value(node, alg.ts, alg.it)
                if alg.ts == 0 and alg.it == 0:
                    dofs = self.leaf_dofs(node)
                    jac = sps.csr_matrix((np.ones(dofs.size), (np.arange(dofs.size), dofs)),
                                         shape=(dofs.size, N))
                    return pp.ad.AdArray(v, jac)
                return v
            if op == "tdense":
                return self.leaf_value(node, alg.ts, alg.it)
            if op == "scalar":
                return float(node["v"])
            if op == "dense":
                return np.asarray(node["v"], dtype=float)
            if op == "sparse":
                return R.make_sparse(node)
            if op in ("proj", "projsum"):
                return sps.csr_matrix(G.proj_dense(node))
            raise KeyError(op)

        return R.PythonOpsAlgebra(leaf, funcs, on_op=on_op)

    # ------------------------------------------------------------- (3) dual numbers
    def ref_algebra(self):
        N = self.N

        def leaf(node, alg):
            op = node["op"]
            if op in ("var", "mdvar"):
                v = self.leaf_value(node, alg.ts, alg.it)
                if alg.ts == 0 and alg.it == 0:
                    dofs = self.leaf_dofs(node)
                    J = np.zeros((dofs.size, N))
                    J[np.arange(dofs.size), dofs] = 1.0
                    return R.Dual(v, J)
                return v
            if op == "tdense":
                return self.leaf_value(node, alg.ts, alg.it)
            if op == "scalar":
                return float(node["v"])
            if op == "dense":
                return np.asarray(node["v"], dtype=float)
            if op == "sparse":
                return R.dense_of_mat(node)
            if op in ("proj", "projsum"):
                return G.proj_dense(node)
            raise KeyError(op)

        return R.RefAlgebra(N, leaf)


def make_generator(setup, rng):
    gen = G.ExprGen(rng, setup.pool(rng),
                    left_consts=["const", "const", "int", "scalar", "dense", "dense"],
                    right_consts=["const", "int", "arr", "scalar", "dense"],
                    mat_left=["mat", "mat", "sparse", "proj", "projsum", "matexpr"],
                    getitem=False, shifts=True, free_sizes=False)
    gen.fn_const_kinds = ["scalar", "dense"]
    gen.max_shift = setup.D
    gen._np_leaf = _np_leaf_for(setup, gen)
    return gen


def _np_leaf_for(setup, gen):
    def leaf(node, alg):
        op = node["op"]
        if op in ("var", "mdvar", "tdense"):
            return setup.leaf_value(node, alg.ts + gen._base[0], alg.it + gen._base[1])
        if op == "scalar":
            return float(node["v"])
        if op == "dense":
            return np.asarray(node["v"], dtype=float)
        if op == "sparse":
            return R.dense_of_mat(node)
        if op in ("proj", "projsum"):
            return G.proj_dense(node)
        raise KeyError(op)
    return leaf
