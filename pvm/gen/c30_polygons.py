"""Integer lattice generators shared by C30 (distances) and C44 (clipping): lattice points
and segments, strict convex hulls, dented (non-convex) simple polygons, lattice planes."""
from __future__ import annotations

import numpy as np

from pvm.ref import c28_rational as R


def _ipt(rng, nd, box=4):
    return tuple(int(v) for v in rng.integers(-box, box + 1, size=nd))


def _iseg(rng, nd, box=4):
    while True:
        a, b = _ipt(rng, nd, box), _ipt(rng, nd, box)
        if a != b:
            return a, b


def _hull(points):
    pts = sorted(set(points))
    if len(pts) < 3:
        return pts

    def half(seq):
        h = []
        for p in seq:
            while len(h) >= 2 and R.cross2(R.sub(h[-1], h[-2]), R.sub(p, h[-1])) <= 0:
                h.pop()
            h.append(p)
        return h
    lo = half(pts)
    up = half(reversed(pts))
    return lo[:-1] + up[:-1]


def _polygon2d(rng, nonconvex):
    """Simple integer polygon in [-4,4]^2 (strictly convex hull, optionally dented)."""
    for _ in range(200):
        k = int(rng.integers(3, 8))
        pts = [tuple(int(v) for v in rng.integers(-4, 5, size=2)) for _ in range(k)]
        poly = _hull(pts)
        if len(poly) < 3 or R.polygon_area2_2d(poly) == 0:
            continue
        if nonconvex:
            ok = False
            for _ in range(30):
                q = tuple(int(v) for v in rng.integers(-4, 5, size=2))
                if R.point_in_polygon_2d(q, poly) != 1:
                    continue
                pos = int(rng.integers(0, len(poly)))
                cand = poly[:pos + 1] + [q] + poly[pos + 1:]
                if R.is_simple_polygon(cand) and not _is_convex2(cand):
                    poly, ok = cand, True
                    if rng.random() < 0.6:
                        break
            if not ok:
                continue
        if rng.random() < 0.5:
            poly = poly[::-1]
        r = int(rng.integers(0, len(poly)))
        return poly[r:] + poly[:r]
    return [(0, 0), (4, 0), (4, 4), (2, 1), (0, 4)] if nonconvex else [(0, 0), (4, 0), (0, 4)]


def _is_convex2(poly):
    n = len(poly)
    s = [R.cross2(R.sub(poly[(i + 1) % n], poly[i]), R.sub(poly[(i + 2) % n], poly[(i + 1) % n]))
         for i in range(n)]
    return all(x >= 0 for x in s) or all(x <= 0 for x in s)


_UV = [((1, 0, 0), (0, 1, 0)), ((1, 0, 0), (0, 0, 1)), ((0, 1, 0), (0, 0, 1)),
       ((1, 0, 1), (0, 1, 0)), ((1, 1, 0), (0, 0, 1)), ((1, 0, 1), (0, 1, 1)),
       ((1, -1, 0), (1, 1, 1)), ((2, 1, 0), (0, 1, 1)), ((1, 1, 1), (1, -1, 0)),
       ((1, 0, 0), (0, 2, 1)), ((1, 2, 0), (0, 1, 2)), ((1, 1, -1), (0, 1, 1))]


def _embed(o, u, v, q):
    return R.add(o, R.add(R.mul(u, q[0]), R.mul(v, q[1])))
