"""Value-directed random expression generator over the mini-AST of ``pvm.ref.c01_dual``
(shared by C01 and C02).

The evaluation point is drawn first; trees are then grown top-down / evaluated bottom-up
with plain numpy, and every operation is admitted only if its operands lie inside the
smooth domain at that point (positive bases for non-integer powers, |x| < 1 for
arcsin/arccos/arctanh, x > 1 for arccosh, denominators away from 0, distance >= KINK from
the kinks of abs / maximum / l2_norm / heaviside / characteristic_function / the
safe_power tolerance band, no catastrophic cancellation in + and -, magnitudes <= BIG).
Where a function's domain is missed, the argument is first mapped affinely into the
domain (which adds float-left / float-right arithmetic nodes).

A *pool* entry describes a vector-valued leaf:
    {"node": ast-leaf, "val": callable(ts, it) -> ndarray | None, "typ": "ad" | "arr",
     "size": n}
``val`` gives the value of the leaf in a (previous time step, previous iterate) context,
None if the leaf cannot be shifted that way.  ``typ`` says whether the leaf depends on the
independent variables ("ad") in the current context.
"""
from __future__ import annotations

import math

import numpy as np

from pvm.ref import c01_dual as R

KINK = 2e-2          # generator margin from kinks (checks demand >= 1e-2)
BIG = 1e3            # bound on |value| of every node
KAPPA = 1e2          # (|a|+|b|)/|a+-b| bound for additions / subtractions

FUNC_DOMAIN = {      # admissible argument interval (None: no restriction)
    "exp": (-8.0, 4.0), "log": (0.05, 50.0), "abs": None, "sin": (-20.0, 20.0),
    "cos": (-20.0, 20.0), "tan": (-1.3, 1.3), "arcsin": (-0.9, 0.9),
    "arccos": (-0.9, 0.9), "arctan": None, "sinh": (-5.0, 5.0), "cosh": (-5.0, 5.0),
    "tanh": (-10.0, 10.0), "arcsinh": None, "arccosh": (1.2, 50.0),
    "arctanh": (-0.9, 0.9), "heaviside": None, "heaviside_smooth": None,
    "RegularizedHeaviside": None, "characteristic_function": None, "safe_power": None,
}
# coo_array is left out: scipy's n-d capable coo_array returns a 0-d result for
# (1 x n) @ vector, which AdArray (rightly) refuses; that is scipy behaviour, not porepy's.
MAT_FORMATS = ("csr", "csc", "coo", "dia", "csr_array", "csc_array", "dia_array")


def _r(x, nd=6):
    """Round to a short decimal so that cases stay readable (exactly representable in JSON)."""
    return float(np.round(x, nd))


def finite_ok(v):
    v = np.asarray(v, dtype=float)
    return v.size > 0 and bool(np.all(np.isfinite(v))) and float(np.max(np.abs(v))) <= BIG


class ExprGen:
    def __init__(self, rng, pool, *, left_consts, right_consts, mat_left=("mat",),
                 getitem=True, shifts=False, funcs=R.ALL_FUNCS, free_sizes=True,
                 wrap_right=False, maxsize=12):
        self.rng = rng
        self.pool = pool
        self.left_consts = list(left_consts)
        self.right_consts = list(right_consts)
        self.mat_left = list(mat_left)
        self.allow_getitem = getitem
        self.allow_shifts = shifts
        self.funcs = list(funcs)
        self.free_sizes = free_sizes      # may ask for vectors of arbitrary size (C01)
        self.maxsize = maxsize
        self.ctx = (0, 0)

    # ------------------------------------------------------------------ evaluation
    def _np_leaf(self, node, alg):
        for e in self.pool:
            if e["node"] is node or e["node"] == node:
                return e["val"](alg.ts + self._base[0], alg.it + self._base[1])
        op = node["op"]
        if op == "scalar":
            return float(node["v"])
        if op == "dense":
            return np.asarray(node["v"], dtype=float)
        if op == "sparse":
            return R.make_sparse(node)
        if op in ("proj", "projsum"):
            return proj_dense(node)
        raise KeyError(op)

    def value(self, node, ctx=(0, 0)):
        """numpy value of a subtree in a context; None if not evaluable / not finite."""
        self._base = ctx
        alg = R.NumpyAlgebra(self._np_leaf)
        try:
            v = R.walk(node, alg)
        except Exception:
            return None
        if v is None or np.ndim(v) != 1 or not finite_ok(v):
            return None
        return np.asarray(v, dtype=float)

    # --------------------------------------------------------------------- leaves
    def sizes(self):
        return sorted({e["size"] for e in self.pool})

    def leaf_vec(self, n, ctx, want_ad=None):
        rng = self.rng
        cands = [e for e in self.pool if e["size"] == n and e["val"](*ctx) is not None]
        if want_ad:
            c2 = [e for e in cands if e["typ"] == "ad" and ctx == (0, 0)]
            cands = c2 or cands
        if cands and rng.random() < 0.9:
            e = cands[int(rng.integers(len(cands)))]
            typ = e["typ"] if ctx == (0, 0) else "arr"
            return e["node"], e["val"](*ctx), typ
        # adapt a leaf of another size with a matrix / index array
        others = [e for e in self.pool if e["val"](*ctx) is not None]
        e = others[int(rng.integers(len(others)))]
        typ = e["typ"] if ctx == (0, 0) else "arr"
        return self._adapt(e["node"], e["val"](*ctx), typ, n)

    def _adapt(self, node, val, typ, n):
        rng = self.rng
        m = val.size
        if self.allow_getitem and m >= 1 and rng.random() < 0.5:
            key, idx = self.rand_key(m, n)
            if key is not None:
                return {"op": "getitem", "a": node, "key": key}, val[idx], typ
        for _ in range(6):
            M = self.matrix_operand(str(rng.choice(self.mat_left)), n, m, val)
            if M is not None:
                return {"op": "matmul", "a": M[0], "b": node}, M[1] @ val, typ
        M = self.rand_matrix(n, m, val, op="mat" if "mat" in self.mat_left else "sparse")
        return {"op": "matmul", "a": M, "b": node}, R.dense_of_mat(M) @ val, typ

    def rand_key(self, m, n):
        """A key selecting n entries out of m; returns (key-node, equivalent index array)."""
        rng = self.rng
        ar = np.arange(m)
        kinds = ["idx"]
        if n == 1:
            kinds.append("int")
        if n <= m:
            kinds.append("slice")
        k = kinds[int(rng.integers(len(kinds)))]
        if k == "int":
            i = int(rng.integers(-m, m))
            return {"k": "int", "i": i}, np.array([i % m])
        if k == "slice":
            step = int(rng.integers(1, max(2, m // max(n, 1) + 1)))
            span = (n - 1) * step + 1
            if span > m:
                step, span = 1, n
            start = int(rng.integers(0, m - span + 1))
            stop = start + span
            s = [start, stop, step]
            if rng.random() < 0.3 and start == 0:
                s[0] = None
            if rng.random() < 0.3 and stop == m:
                s[1] = None
            if step == 1 and rng.random() < 0.5:
                s[2] = None
            if rng.random() < 0.15 and n >= 1:   # reversed slice
                idx = ar[slice(*s)][::-1]
                first, last = int(idx[0]), int(idx[-1])
                stop_r = last - step
                s = [first, stop_r if stop_r >= 0 else None, -step]
                return {"k": "slice", "s": s}, ar[slice(*s)]
            return {"k": "slice", "s": s}, ar[slice(*s)]
        idx = rng.integers(-m, m, size=n)
        return {"k": "idx", "i": [int(v) for v in idx]}, idx % m

    def rand_matrix(self, r, c, val=None, fmt=None, op="mat"):
        rng = self.rng
        dens = float(rng.choice([0.25, 0.5, 0.8, 1.0]))
        mask = rng.random((r, c)) < dens
        if not mask.any():
            mask[int(rng.integers(r)), int(rng.integers(c))] = True
        if rng.random() < 0.3 and r > 1:
            mask[int(rng.integers(r)), :] = False          # an empty row
        if not mask.any():
            mask[0, 0] = True
        i, j = np.nonzero(mask)
        v = rng.uniform(0.2, 2.0, size=i.size) * rng.choice([-1.0, 1.0], size=i.size)
        if val is not None and val.size == c:
            # keep magnitudes moderate
            s = float(np.max(np.abs(val))) * c
            if s > 50:
                v = v * (50.0 / s)
        i, j, v = list(map(int, i)), list(map(int, j)), [_r(x) for x in v]
        if rng.random() < 0.2 and len(i) > 1:              # a duplicate entry (coo sums)
            k = int(rng.integers(len(i)))
            i.append(i[k]); j.append(j[k]); v.append(_r(rng.uniform(0.2, 1.0)))
        if rng.random() < 0.15:                            # an explicit zero
            i.append(int(rng.integers(r))); j.append(int(rng.integers(c))); v.append(0.0)
        fmt = fmt or str(rng.choice(MAT_FORMATS))
        return {"op": op, "fmt": fmt, "shape": [int(r), int(c)], "ijv": [i, j, v]}

    # ------------------------------------------------------------------- constants
    def const_node(self, kind, n, val):
        """A constant operand node of the given kind with value ``val`` (float or array)."""
        if kind == "const":
            return {"op": "const", "v": _r(val)}
        if kind == "int":
            return {"op": "int", "v": int(val)}
        if kind == "scalar":
            return {"op": "scalar", "v": _r(val)}
        v = np.broadcast_to(np.asarray(val, dtype=float), (n,))
        if kind == "arr":
            return {"op": "arr", "v": [_r(x) for x in v]}
        if kind == "arr_int":
            return {"op": "arr", "v": [int(x) for x in v], "dtype": "int"}
        if kind == "dense":
            return {"op": "dense", "v": [_r(x) for x in v]}
        raise ValueError(kind)

    @staticmethod
    def node_value(node):
        op = node["op"]
        if op in ("const", "scalar"):
            return float(node["v"])
        if op == "int":
            return float(node["v"])
        return np.asarray(node["v"], dtype=float)

    def draw_const(self, kind, n, lo, hi, sign="any", integer=False):
        rng = self.rng
        scalar = kind in ("const", "int", "scalar")
        size = None if scalar else n
        if integer or kind in ("int", "arr_int"):
            lo_i, hi_i = int(math.ceil(lo)), int(math.floor(hi))
            vals = [k for k in range(lo_i, hi_i + 1) if k != 0]
            if sign == "pos":
                vals = [k for k in vals if k > 0]
            if not vals:
                return None
            v = rng.choice(vals, size=size)
        else:
            v = rng.uniform(lo, hi, size=size)
            if sign == "any":
                v = v * rng.choice([-1.0, 1.0], size=size)
        node = self.const_node(kind, n, v)
        return node, self.node_value(node)

    # ------------------------------------------------------------------ operations
    def _try_bin(self, op, a, va, b, vb, ta, tb):
        """Admit ``a op b`` (values va, vb: float or arrays) if inside the smooth domain."""
        with np.errstate(all="ignore"):
            va_ = np.asarray(va, dtype=float)
            vb_ = np.asarray(vb, dtype=float)
            if op in ("add", "sub"):
                res = va_ + vb_ if op == "add" else va_ - vb_
                den = np.abs(res)
                num = np.abs(va_) + np.abs(vb_)
                if np.any(den * KAPPA < num):
                    return None
            elif op == "mul":
                res = va_ * vb_
            elif op == "div":
                if np.min(np.abs(vb_)) < 0.1:
                    return None
                res = va_ / vb_
            elif op == "pow":
                int_exp = tb == "const" and bool(np.all(vb_ == np.round(vb_)))
                if int_exp:
                    if np.any(vb_ < 0) and np.min(np.abs(va_)) < 0.1:
                        return None
                    if np.max(np.abs(vb_)) > 4:
                        return None
                else:
                    if np.min(va_) < 0.05 or np.max(np.abs(vb_)) > 4:
                        return None
                res = va_ ** vb_
            else:
                return None
        if np.ndim(res) == 0 or not finite_ok(res):
            return None
        typ = "ad" if "ad" in (ta, tb) else "arr"
        return {"op": op, "a": a, "b": b}, np.asarray(res, dtype=float), typ

    def _const_for(self, op, side, kinds, n, v_other):
        """Pick a constant operand for ``op`` on ``side`` ('l' or 'r'), guided by the
        value of the other operand."""
        rng = self.rng
        kind = str(rng.choice(kinds))
        vo = np.asarray(v_other, dtype=float)
        if op in ("add", "sub"):
            return self.draw_const(kind, n, 0.2, 3.0)
        if op == "mul":
            return self.draw_const(kind, n, 0.2, 3.0)
        if op == "div":
            return self.draw_const(kind, n, 0.25, 3.0)
        if op == "pow":
            if side == "r":      # expr ** c
                if np.min(vo) >= 0.05 and rng.random() < 0.6 and kind not in ("int", "arr_int"):
                    return self.draw_const(kind, n, 0.3, 3.0)
                lo = -3 if np.min(np.abs(vo)) >= 0.3 else 1
                return self.draw_const(kind, n, lo, 3, integer=True)
            # c ** expr : positive base
            if kind in ("int", "arr_int"):
                return self.draw_const(kind, n, 2, 3, sign="pos")
            return self.draw_const(kind, n, 0.3, 3.0, sign="pos")
        return None

    def _scalar_operand(self, c):
        """A scalar constant node (raw float or wrapped Scalar) and the side it goes to."""
        rng = self.rng
        lk = [k for k in self.left_consts if k in ("const", "scalar")]
        rk = [k for k in self.right_consts if k in ("const", "scalar")]
        left = bool(lk) and (not rk or rng.random() < 0.5)
        kinds = lk if left else rk
        return self.const_node(str(rng.choice(kinds)), 1, c), left

    def fit(self, node, val, typ, lo, hi):
        """Map ``val`` affinely into [lo, hi] if it is not inside already."""
        rng = self.rng
        mn, mx = float(np.min(val)), float(np.max(val))
        if lo <= mn and mx <= hi:
            return node, val, typ
        w = (hi - lo)
        tlo = lo + 0.1 * w * rng.random()
        thi = hi - 0.1 * w * rng.random()
        if mx - mn < 1e-9 * max(1.0, abs(mx)):
            s = 1.0
            t = 0.5 * (tlo + thi) - mn
        else:
            s = (thi - tlo) / (mx - mn)
            s = min(s, 4.0)
            if rng.random() < 0.3:
                s = -s
            t = (tlo + 0.5 * (thi - tlo)) - s * 0.5 * (mx + mn)
        s, t = _r(s, 4), _r(t, 4)
        if s == 0.0:
            return None
        cur = (node, val, typ)
        for op, c in (("mul", s), ("add", t)):
            if (op == "mul" and c == 1.0) or (op == "add" and c == 0.0):
                continue
            cnode, left = self._scalar_operand(c)
            if left:
                cur = self._try_bin(op, cnode, c, cur[0], cur[1], "const", cur[2])
            else:
                cur = self._try_bin(op, cur[0], cur[1], cnode, c, cur[2], "const")
            if cur is None:
                return None
        mn, mx = float(np.min(cur[1])), float(np.max(cur[1]))
        if not (lo <= mn and mx <= hi):
            return None
        return cur

    def apply_unary(self, name, node, val, typ):
        """f(arg) with parameters chosen so that the point is inside the smooth domain."""
        rng = self.rng
        p = {}
        dom = FUNC_DOMAIN[name]
        if dom is not None:
            r = self.fit(node, val, typ, *dom)
            if r is None:
                return None
            node, val, typ = r
        a = np.abs(val)
        if name in ("abs", "heaviside", "RegularizedHeaviside"):
            if np.min(a) < KINK:
                return None
        if name == "heaviside":
            p = {"zerovalue": float(rng.choice([0.0, 0.5, 1.0]))}
        if name in ("heaviside_smooth", "RegularizedHeaviside"):
            p = {"eps": float(rng.choice([1e-3, 1e-2, 0.1, 0.5, 1.0]))}
        if name == "characteristic_function":
            tols = [t for t in (1e-10, 0.05, 0.3, 1.0) if np.min(np.abs(a - t)) >= KINK]
            if not tols:
                return None
            p = {"tol": float(rng.choice(tols))}
        if name == "safe_power":
            tols = [t for t in (1e-12, 1e-8, 0.1, 0.5) if np.min(np.abs(a - t)) >= KINK]
            if not tols:
                return None
            tol = float(rng.choice(tols))
            out = a > tol
            powers = [2.0, 3.0, 1.0]
            if not np.any(out) or np.min(a[out]) >= 0.1:
                powers += [-1.0, -2.0]
                if not np.any(out) or np.min(val[out]) > 0:
                    powers += [-0.5, 0.5, 1.5]
            p = {"power": float(rng.choice(powers)),
                 "zero_val": float(rng.choice([0.0, 1.0, 0.7071])), "tol": tol}
        out = {"op": "fn", "name": name, "p": p, "args": [node]}
        with np.errstate(all="ignore"):
            res = R.NUMPY_FUNCS[name](p)(val)
        if not finite_ok(res):
            return None
        return out, np.asarray(res, dtype=float), typ

    # -------------------------------------------------------------------- recursion
    def vec(self, n, d, ctx=(0, 0), want_ad=True):
        """(node, value, typ) of a vector-valued expression of size n, depth <= d (+ the
        affine domain fits)."""
        rng = self.rng
        if d <= 0:
            return self.leaf_vec(n, ctx, want_ad)
        cats = ["bin_expr", "bin_const_r", "bin_const_l", "neg", "matmul", "fn", "fn",
                "fn2"]
        if self.allow_getitem:
            cats.append("getitem")
        if self.allow_shifts and ctx[1] == 0:
            cats += ["shift", "tinc"]
        for _ in range(12):
            cat = cats[int(rng.integers(len(cats)))]
            r = getattr(self, "_mk_" + cat)(n, d, ctx)
            if r is not None and r[1].size == n and finite_ok(r[1]):
                return r
        return self.leaf_vec(n, ctx, want_ad)

    def _sub(self, n, d, ctx):
        """A sub-expression of depth <= d-1 (sometimes shallower)."""
        dd = d - 1
        if dd > 0 and self.rng.random() < 0.25:
            dd = int(self.rng.integers(0, dd))
        return self.vec(n, dd, ctx)

    def _mk_bin_expr(self, n, d, ctx):
        a, va, ta = self._sub(n, d, ctx)
        b, vb, tb = self.vec(n, int(self.rng.integers(0, d)), ctx)
        if self.rng.random() < 0.5:
            a, va, ta, b, vb, tb = b, vb, tb, a, va, ta
        ops = list(self.rng.permutation(["add", "sub", "mul", "div", "pow"]))
        for op in ops:
            r = self._try_bin(op, a, va, b, vb, ta, tb)
            if r is not None:
                return r
        return None

    def _mk_bin_const_r(self, n, d, ctx):
        a, va, ta = self._sub(n, d, ctx)
        for op in self.rng.permutation(["add", "sub", "mul", "div", "pow"]):
            c = self._const_for(op, "r", self.right_consts, n, va)
            if c is None:
                continue
            r = self._try_bin(op, a, va, c[0], c[1], ta, "const")
            if r is not None:
                return r
        return None

    def _mk_bin_const_l(self, n, d, ctx):
        a, va, ta = self._sub(n, d, ctx)
        for op in self.rng.permutation(["add", "sub", "mul", "div", "pow"]):
            c = self._const_for(op, "l", self.left_consts, n, va)
            if c is None:
                continue
            r = self._try_bin(op, c[0], c[1], a, va, "const", ta)
            if r is not None:
                return r
        return None

    def _mk_neg(self, n, d, ctx):
        a, va, ta = self._sub(n, d, ctx)
        return {"op": "neg", "a": a}, -va, ta

    def _inner_size(self, n):
        rng = self.rng
        if self.free_sizes and rng.random() < 0.6:
            return int(rng.integers(1, self.maxsize + 1))
        s = self.sizes()
        return int(s[int(rng.integers(len(s)))])

    def _mk_matmul(self, n, d, ctx):
        m = self._inner_size(n)
        b, vb, tb = self._sub(m, d, ctx)
        kind = str(self.rng.choice(self.mat_left))
        M = self.matrix_operand(kind, n, m, vb)
        if M is None:
            return None
        node, dense = M
        return {"op": "matmul", "a": node, "b": b}, dense @ vb, tb

    def matrix_operand(self, kind, n, m, vb):
        if kind == "mat":
            M = self.rand_matrix(n, m, vb)
            return M, R.dense_of_mat(M)
        if kind == "sparse":
            M = self.rand_matrix(n, m, vb, op="sparse",
                                 fmt=str(self.rng.choice(["csr", "csc", "coo"])))
            return M, R.dense_of_mat(M)
        if kind == "proj":
            P = self.rand_proj(n, m)
            return (P, proj_dense(P)) if P is not None else None
        if kind == "projsum":
            P = self.rand_projsum(n, m)
            return (P, proj_dense(P)) if P is not None else None
        if kind == "matexpr":
            return self.rand_matexpr(n, m, vb)
        raise ValueError(kind)

    def rand_proj(self, n, m, k=None):
        """Projection R^m -> R^n mapping k distinct domain entries to k distinct range
        entries: out[ran[i]] = x[dom[i]].  With T the node holds the constructor arguments
        of the transposed operator (R^n -> R^m) and ``.T`` is applied when it is built."""
        rng = self.rng
        kmax = min(n, m)
        if kmax < 1:
            return None
        k = min(k or int(rng.integers(1, kmax + 1)), kmax)
        dom = rng.choice(m, size=k, replace=False)
        ran = rng.choice(n, size=k, replace=False)
        if rng.random() < 0.5:
            o = np.argsort(dom)
            dom, ran = dom[o], ran[o]
        dom, ran = [int(x) for x in dom], [int(x) for x in ran]
        if rng.random() < 0.25:
            return {"op": "proj", "dom": ran, "ran": dom, "dsize": int(n), "rsize": int(m),
                    "T": True}
        return {"op": "proj", "dom": dom, "ran": ran, "dsize": int(m), "rsize": int(n),
                "T": False}

    def rand_projsum(self, n, m):
        rng = self.rng
        if n < 2:
            return None
        parts = int(rng.integers(2, min(4, n) + 1))
        rows = list(rng.permutation(n))
        cuts = sorted(rng.choice(np.arange(1, n), size=parts - 1, replace=False)) \
            if n > parts - 1 and parts > 1 else []
        groups = np.split(np.array(rows), cuts) if len(cuts) else [np.array(rows)]
        projs = []
        for g in groups:
            k = min(len(g), m)
            if k < 1:
                continue
            dom = rng.choice(m, size=k, replace=False)
            projs.append({"op": "proj", "dom": [int(x) for x in dom],
                          "ran": [int(x) for x in g[:k]], "dsize": int(m),
                          "rsize": int(n), "T": False})
        if len(projs) < 2:
            return None
        return {"op": "projsum", "projs": projs}

    def rand_matexpr(self, n, m, vb):
        """A matrix-valued expression: products / sums / scalar multiples of sparse leaves."""
        rng = self.rng
        k = str(rng.choice(["prod", "sum", "scal", "neg"]))
        sp = lambda r, c: self.rand_matrix(r, c, None, op="sparse",
                                           fmt=str(rng.choice(["csr", "csc", "coo"])))
        if k == "prod":
            q = int(rng.integers(1, 7))
            A, B = sp(n, q), sp(q, m)
            node = {"op": "matmul", "a": A, "b": B}
            dense = R.dense_of_mat(A) @ R.dense_of_mat(B)
        elif k == "sum":
            A, B = sp(n, m), sp(n, m)
            o = str(rng.choice(["add", "sub"]))
            node = {"op": o, "a": A, "b": B}
            dense = R.dense_of_mat(A) + (1 if o == "add" else -1) * R.dense_of_mat(B)
        elif k == "scal":
            A = sp(n, m)
            c = _r(rng.uniform(0.3, 2.0))
            if rng.random() < 0.5:
                node = {"op": "mul", "a": {"op": "scalar", "v": c}, "b": A}
            else:
                node = {"op": "mul", "a": A, "b": {"op": "scalar", "v": c}}
            dense = c * R.dense_of_mat(A)
        else:
            A = sp(n, m)
            node = {"op": "neg", "a": A}
            dense = -R.dense_of_mat(A)
        if vb is not None:
            s = float(np.max(np.abs(dense @ vb))) if dense.size else 0.0
            if s > BIG:
                return None
        return node, dense

    def _mk_getitem(self, n, d, ctx):
        m = int(self.rng.integers(n, max(n, self.maxsize) + 1)) if self.free_sizes else None
        if m is None:
            s = [x for x in self.sizes() if x >= n]
            if not s:
                return None
            m = int(s[int(self.rng.integers(len(s)))])
        a, va, ta = self._sub(m, d, ctx)
        key, idx = self.rand_key(m, n)
        if key is None:
            return None
        return {"op": "getitem", "a": a, "key": key}, va[idx], ta

    def _mk_fn(self, n, d, ctx):
        names = [f for f in self.funcs if f in R.UNARY_FUNCS]
        name = names[int(self.rng.integers(len(names)))]
        a, va, ta = self._sub(n, d, ctx)
        return self.apply_unary(name, a, va, ta)

    def _mk_fn2(self, n, d, ctx):
        rng = self.rng
        which = [f for f in ("l2_norm", "maximum") if f in self.funcs]
        if not which:
            return None
        name = which[int(rng.integers(len(which)))]
        if name == "l2_norm":
            dim = int(rng.integers(1, 4))
            if not self.free_sizes and (n * dim) not in self.sizes():
                dim = 1
            a, va, ta = self._sub(n * dim, d, ctx)
            res = R._np_l2(dim, va)
            if np.min(res) < KINK:
                return None
            return ({"op": "fn", "name": "l2_norm", "p": {"dim": dim}, "args": [a]},
                    res, ta)
        a, va, ta = self._sub(n, d, ctx)
        mode = str(rng.choice(["expr", "scalar", "array"]))
        if mode == "expr":
            b, vb, tb = self.vec(n, int(rng.integers(0, d)), ctx)
        else:
            src = self.fn_const_kinds or (self.right_consts + self.left_consts)
            kinds = [k for k in src
                     if (k in ("const", "int", "scalar")) == (mode == "scalar")]
            if not kinds:
                return None
            kind = str(rng.choice(kinds))
            lo, hi = float(np.min(va)), float(np.max(va))
            c = self.draw_const(kind, n, min(lo, hi - 1e-3) - 0.5, hi + 0.5, sign="raw") \
                if kind not in ("int", "arr_int") else \
                self.draw_const(kind, n, math.floor(lo) - 1, math.ceil(hi) + 1)
            if c is None:
                return None
            b, vb, tb = c[0], c[1], "const"
        if np.min(np.abs(np.asarray(va) - np.asarray(vb))) < KINK:
            return None
        args, vals = [a, b], [va, vb]
        if rng.random() < 0.5:
            args, vals = args[::-1], vals[::-1]
        res = np.maximum(vals[0], vals[1])
        typ = "ad" if "ad" in (ta, tb) else "arr"
        return {"op": "fn", "name": "maximum", "p": {}, "args": args}, \
            np.asarray(res, dtype=float) * np.ones(n), typ

    # --- time / iterate shifts (C02)
    def _mk_shift(self, n, d, ctx):
        rng = self.rng
        kind = "prev_ts" if (ctx[0] > 0 or rng.random() < 0.6) else "prev_it"
        if ctx[1] > 0:
            return None
        k = int(rng.integers(1, 4))
        new = (ctx[0] + k, ctx[1]) if kind == "prev_ts" else (ctx[0], ctx[1] + k)
        if new[0] > 0 and new[1] > 0:
            return None
        if new[0] > self.max_shift or new[1] > self.max_shift:
            return None
        a, va, ta = self.vec(n, d - 1, new, want_ad=False)
        node = {"op": kind, "k": k, "a": a}
        if not self.shift_ok(node, ctx):
            return None
        return node, va, "arr"

    def _mk_tinc(self, n, d, ctx):
        rng = self.rng
        if ctx[1] > 0 or ctx[0] + 1 > self.max_shift:
            return None
        a, va, ta = self._sub(n, d, ctx)
        prev = self.value(a, (ctx[0] + 1, ctx[1]))
        if prev is None or prev.size != n:
            return None
        node = {"op": "tinc", "a": a}
        res = va - prev
        if rng.random() < 0.5:
            dt = _r(rng.uniform(0.1, 2.0), 3)
            node = {"op": "dt", "a": a, "dt": dt}
            res = res / dt
        if np.any(np.abs(res) * KAPPA < np.abs(va) + np.abs(prev)):
            return None
        if not self.shift_ok(node, ctx):
            return None
        return node, res, ta

    max_shift = 3
    fn_const_kinds = None     # constant operand kinds admissible as function arguments

    def shift_ok(self, node, ctx):
        """No variable below a time shift may carry an iterate shift and vice versa
        (porepy raises by design); every shifted leaf must have stored values."""
        return self.value(node, ctx) is not None


def proj_dense(node):
    """Dense matrix of a proj / projsum node:  P[ran[k], dom[k]] = 1 (transposed if T)."""
    if node["op"] == "projsum":
        return sum(proj_dense(p) for p in node["projs"])
    P = np.zeros((int(node["rsize"]), int(node["dsize"])))
    P[np.asarray(node["ran"], dtype=int), np.asarray(node["dom"], dtype=int)] = 1.0
    return P.T if node.get("T") else P
