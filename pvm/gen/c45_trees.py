"""Operator-tree specifications for C45: an own JSON-able mini-AST (independent of
``pp.ad.Operator``), its random generator, single-leaf / single-node mutations, a
canonical form (realised leaf data -> nested tuples) and the builder that turns a
specification into real ``pp.ad`` operators through the public constructors and the Python
operators.

Node kinds (``"k"``):
  scalar   {"v": float}
  dense    {"n", "seed", "set": [[i, value], ...]}                 values k/4
  sparse   {"fmt", "cls", "m", "n", "seed", "dens", "set": [[i, j, value], ...]}
  var      {"name", "dom": [type, index]}             type in sd | intf
  mdvar    {"name", "doms": [[type, index], ...]}     all of one type
  tdarray  {"name", "doms": [[type, index], ...]}     type in sd | intf | bg
  proj     {"dom": idx, "rng": idx, "ds", "rs"}       idx = list | {"perm": n, "seed", "set"}
  projlist {"items": [proj, ...]}                     pp.ad.sum_projection_list of >= 2
  projprod {"items": [[proj, proj], ...]}             sum_projection_list of products
  div      {"doms": [[sd, i], ...], "dim"}
  discr    {"cls", "kw", "term", "doms"}              pp.ad.MpfaAd(kw, sds).flux() ...
  op       {"op": add|sub|mul|div|pow|matmul, "c": [L, R]}          L <op> R
  rop      {"op": ..., "left": scalar | sparse, "c": R}             python_value <op> R
  neg      {"c": X}
  func     {"f": name, "c": [args]}                   pp.ad.Function(callable, name)(*args)
  surrogate {"name", "doms", "c": [dependencies]}     pp.ad.SurrogateOperator(name, doms, deps)

Domains are references into a per-process pool of grids: pool index k of the three domain
types (subdomain grid / mortar grid / boundary grid) carries the *same id number* (the three
classes count their ids separately), so that "same id, other domain type" is available as a
mutation.
"""
from __future__ import annotations

import copy
import hashlib

import numpy as np

NPOOL = 5
BIN_OPS = ["add", "sub", "mul", "div", "pow", "matmul"]
SYMBOL = {"add": "+", "sub": "-", "mul": "*", "div": "/", "pow": "**", "matmul": "@"}
FUNCS1 = ["exp", "log", "sin", "cos", "abs", "tanh", "heaviside_smooth"]
FUNCS2 = ["maximum", "minimum_like", "l2_like"]
FUNCSN = ["fn_a", "fn_b"]
FORMATS = ["csr", "csc", "coo", "dia", "bsr"]
DISCR = {"Mpfa": ["flux", "bound_flux", "vector_source"], "Tpfa": ["flux", "bound_flux"],
         "Upwind": ["upwind", "bound_transport_dir"], "Mpsa": ["stress", "bound_stress"]}
NAMES = ["p", "T", "u", "lam", "flux", "p2"]
SURROGATES = ["rho", "mu", "h", "kappa"]
INNER = ("op", "rop", "neg", "func", "surrogate")


# --------------------------------------------------------------------------- pool
_POOL = None


def pool():
    """{"sd": [...], "intf": [...], "bg": [...]} with equal ids per index."""
    global _POOL
    if _POOL is not None:
        return _POOL
    import porepy as pp
    from porepy.grids.mortar_grid import MortarSides

    src = pp.CartGrid([2])
    src.compute_geometry()
    src2 = pp.CartGrid([2, 2])
    src2.compute_geometry()
    sds, intfs, bgs = [], [], []
    mk_m = lambda: pp.MortarGrid(1, {MortarSides.LEFT_SIDE: src}, codim=1)  # noqa: E731
    mk_b = lambda: pp.BoundaryGrid(src2)  # noqa: E731
    m, b = mk_m(), mk_b()
    for k in range(NPOOL):
        g = pp.CartGrid([k + 1, 2])
        guard = 0
        while g.id < max(m.id, b.id):
            g = pp.CartGrid([k + 1, 2])
            guard += 1
            if guard > 100000:
                raise RuntimeError("cannot align grid ids")
        while m.id < g.id:
            m = mk_m()
        while b.id < g.id:
            b = mk_b()
        if not (m.id == g.id == b.id):
            raise RuntimeError("grid / mortar grid / boundary grid ids not aligned")
        sds.append(g)
        intfs.append(m)
        bgs.append(b)
        m, b = mk_m(), mk_b()
    _POOL = {"sd": sds, "intf": intfs, "bg": bgs}
    return _POOL


# --------------------------------------------------------------------------- realisation
def real_dense(node):
    v = np.random.default_rng(int(node["seed"])).integers(-8, 9, int(node["n"])) / 4.0
    if int(node["seed"]) % 3 == 0:
        v = np.round(v * 4.0)           # integer-valued data (index-like / count arrays)
    for i, val in node.get("set", []):
        v[int(i)] = float(val)
    return v


def real_sparse_dense(node):
    rng = np.random.default_rng(int(node["seed"]))
    m, n = int(node["m"]), int(node["n"])
    D = (rng.random((m, n)) < float(node["dens"])) * rng.integers(1, 9, (m, n)) / 2.0
    if not D.any():
        D[0, 0] = 1.0
    for i, j, val in node.get("set", []):
        D[int(i), int(j)] = float(val)
    return D


def real_idx(spec):
    if isinstance(spec, dict):
        a = np.random.default_rng(int(spec["seed"])).permutation(int(spec["perm"]))
        for i, val in spec.get("set", []):
            a[int(i)] = int(val)
        return a.astype(int)
    return np.asarray(spec, dtype=int).reshape(-1)


def _h(a):
    a = np.ascontiguousarray(a)
    return hashlib.sha1(str(a.dtype).encode() + str(a.shape).encode() + a.tobytes()).hexdigest()


def canon(node):
    """Canonical nested tuple: equal iff the two specifications describe equal trees."""
    k = node["k"]
    if k == "scalar":
        return ("scalar", float(node["v"]))
    if k == "dense":
        return ("dense", _h(real_dense(node)))
    if k == "sparse":
        return ("sparse", node["fmt"], node["cls"], _h(real_sparse_dense(node)))
    if k == "var":
        return ("var", node["name"], tuple(node["dom"]))
    if k in ("mdvar", "tdarray"):
        return (k, node["name"], tuple(tuple(d) for d in node["doms"]))
    if k == "proj":
        return ("proj", _h(real_idx(node["dom"])), _h(real_idx(node["rng"])),
                int(node["ds"]), int(node["rs"]))
    if k == "projlist":
        return ("projlist",) + tuple(canon(p) for p in node["items"])
    if k == "projprod":
        return ("projprod",) + tuple((canon(a), canon(b)) for a, b in node["items"])
    if k == "div":
        return ("div", int(node["dim"]), tuple(tuple(d) for d in node["doms"]))
    if k == "discr":
        return ("discr", node["cls"], node["kw"], node["term"],
                tuple(tuple(d) for d in node["doms"]))
    if k == "op":
        return ("op", node["op"], canon(node["c"][0]), canon(node["c"][1]))
    if k == "rop":
        return ("rop", node["op"], canon(node["left"]), canon(node["c"]))
    if k == "neg":
        return ("neg", canon(node["c"]))
    if k == "func":
        return ("func", node["f"]) + tuple(canon(c) for c in node["c"])
    if k == "surrogate":
        return ("surrogate", node["name"], tuple(tuple(d) for d in node["doms"])) \
            + tuple(canon(c) for c in node["c"])
    raise KeyError(k)


# --------------------------------------------------------------------------- builder
def _fn(name):
    import porepy as pp

    f = pp.ad.functions
    table = {"exp": f.exp, "log": f.log, "sin": f.sin, "cos": f.cos, "abs": f.abs,
             "tanh": f.tanh, "heaviside_smooth": f.heaviside_smooth, "maximum": f.maximum,
             "minimum_like": _min_like, "l2_like": _l2_like, "fn_a": _first, "fn_b": _last}
    return table[name]


def _min_like(a, b):
    return a


def _l2_like(a, b):
    return b


def _first(*a):
    return a[0]


def _last(*a):
    return a[-1]


def _sparse(node):
    import scipy.sparse as sps

    return getattr(sps, f"{node['fmt']}_{node['cls']}")(real_sparse_dense(node))


def _doms(refs):
    p = pool()
    return [p[t][int(i)] for t, i in refs]


def _proj(node, variant=0):
    import porepy as pp

    return pp.ad.Projection(domain_indices=real_idx(node["dom"]).copy(),
                            range_indices=real_idx(node["rng"]).copy(),
                            domain_size=int(node["ds"]), range_size=int(node["rs"]))


def build(node, variant=0):
    """Real operator of a specification, fresh leaf objects.  ``variant=1`` feeds equal data
    through other equal-valued Python representations (int for integer-valued scalars,
    index arrays as int32 -> same values)."""
    import porepy as pp

    k = node["k"]
    if k == "scalar":
        v = float(node["v"])
        if variant and v == int(v) and abs(v) < 1e9:
            return pp.ad.Scalar(int(v))
        return pp.ad.Scalar(v)
    if k == "dense":
        v = real_dense(node).copy()
        if variant:
            # the same data handed over in another equal-valued representation
            if np.all(v == np.round(v)):
                return pp.ad.DenseArray(v.astype(np.int64))
            return pp.ad.DenseArray(np.repeat(v, 2)[::2])       # non-contiguous view
        return pp.ad.DenseArray(v)
    if k == "sparse":
        return pp.ad.SparseArray(_sparse(node))
    if k == "var":
        return pp.ad.Variable(node["name"], {"cells": 1}, _doms([node["dom"]])[0])
    if k == "mdvar":
        vs = [pp.ad.Variable(node["name"], {"cells": 1}, d) for d in _doms(node["doms"])]
        return pp.ad.MixedDimensionalVariable(vs)
    if k == "tdarray":
        return pp.ad.TimeDependentDenseArray(node["name"], _doms(node["doms"]))
    if k == "proj":
        return _proj(node)
    if k == "projlist":
        return pp.ad.sum_projection_list([_proj(p) for p in node["items"]])
    if k == "projprod":
        return pp.ad.sum_projection_list([_proj(a) @ _proj(b) for a, b in node["items"]])
    if k == "div":
        return pp.ad.Divergence(_doms(node["doms"]), dim=int(node["dim"]))
    if k == "discr":
        d = getattr(pp.ad, node["cls"] + "Ad")(node["kw"], _doms(node["doms"]))
        return getattr(d, node["term"])()
    if k == "op":
        L, R = build(node["c"][0], variant), build(node["c"][1], variant)  # noqa: F841
        return eval(f"L {SYMBOL[node['op']]} R")
    if k == "rop":
        left = node["left"]
        L = float(left["v"]) if left["k"] == "scalar" else _sparse(left)  # noqa: F841
        R = build(node["c"], variant)  # noqa: F841
        return eval(f"L {SYMBOL[node['op']]} R")
    if k == "neg":
        return -build(node["c"], variant)
    if k == "func":
        f = pp.ad.Function(_fn(node["f"]), node["f"])
        return f(*[build(c, variant) for c in node["c"]])
    if k == "surrogate":
        return pp.ad.SurrogateOperator(node["name"], _doms(node["doms"]),
                                       [build(c, variant) for c in node["c"]])
    raise KeyError(k)


# --------------------------------------------------------------------------- generation
def _dref(rng, types=("sd", "intf")):
    return [str(rng.choice(list(types))), int(rng.integers(0, NPOOL))]


def _drefs(rng, types=("sd", "intf"), nmax=3):
    t = str(rng.choice(list(types)))
    n = int(rng.integers(1, nmax + 1))
    return [[t, int(i)] for i in rng.choice(NPOOL, size=n, replace=False)]


def gen_proj(rng, long=False):
    if long:
        n = int(rng.integers(1001, 1600))
        ds = n + int(rng.integers(0, 3))
        rs = n + int(rng.integers(0, 3))
        dom = {"perm": n, "seed": int(rng.integers(1, 2**31)), "set": []}
        if rng.random() < 0.5:
            rg = {"perm": n, "seed": int(rng.integers(1, 2**31)), "set": []}
        else:
            rg = {"perm": n, "seed": 0, "set": []}
        return {"k": "proj", "dom": dom, "rng": rg, "ds": ds, "rs": rs}
    ds = int(rng.integers(2, 9))
    m = int(rng.integers(1, ds + 1))
    rs = int(rng.integers(m, m + 4))
    return {"k": "proj", "dom": [int(v) for v in rng.choice(ds, size=m, replace=False)],
            "rng": [int(v) for v in rng.choice(rs, size=m, replace=False)],
            "ds": ds, "rs": rs}


def gen_leaf(rng, allow_long=True):
    kind = str(rng.choice(["scalar", "dense", "sparse", "var", "var", "mdvar", "tdarray",
                           "proj", "projlist", "projprod", "div", "discr"]))
    if kind == "scalar":
        v = float(rng.choice([float(rng.integers(-5, 6)), float(rng.normal()),
                              float(rng.integers(1, 100)) * 10.0 ** int(rng.integers(-12, 12))]))
        return {"k": "scalar", "v": v}
    if kind == "dense":
        n = int(rng.integers(1001, 1500)) if (allow_long and rng.random() < 0.1) \
            else int(rng.integers(1, 9))
        return {"k": "dense", "n": n, "seed": int(rng.integers(1, 2**31)), "set": []}
    if kind == "sparse":
        return {"k": "sparse", "fmt": str(rng.choice(FORMATS)),
                "cls": str(rng.choice(["matrix", "array"])), "m": int(rng.integers(1, 6)),
                "n": int(rng.integers(1, 6)), "seed": int(rng.integers(1, 2**31)),
                "dens": float(rng.choice([0.2, 0.5, 0.9])), "set": []}
    if kind == "var":
        return {"k": "var", "name": str(rng.choice(NAMES)), "dom": _dref(rng)}
    if kind == "mdvar":
        return {"k": "mdvar", "name": str(rng.choice(NAMES)), "doms": _drefs(rng)}
    if kind == "tdarray":
        return {"k": "tdarray", "name": str(rng.choice(NAMES)),
                "doms": _drefs(rng, ("sd", "intf", "bg"))}
    if kind == "proj":
        return gen_proj(rng, long=allow_long and rng.random() < 0.15)
    if kind == "projlist":
        n = int(rng.integers(2, 4))
        base = gen_proj(rng)
        items = []
        for _ in range(n):
            p = gen_proj(rng)
            p["ds"], p["rs"] = base["ds"], base["rs"]
            m = len(base["dom"])
            p["dom"] = [int(v) for v in rng.choice(base["ds"], size=m, replace=False)]
            p["rng"] = [int(v) for v in rng.choice(base["rs"], size=m, replace=False)]
            items.append(p)
        return {"k": "projlist", "items": items}
    if kind == "projprod":
        n = int(rng.integers(1, 4))
        items = []
        nmid = int(rng.integers(2, 5))
        nin = nmid + int(rng.integers(0, 3))
        nout = nmid + int(rng.integers(0, 3))
        for _ in range(n):
            right = {"k": "proj", "dom": [int(v) for v in rng.choice(nin, nmid, replace=False)],
                     "rng": [int(v) for v in rng.permutation(nmid)], "ds": nin, "rs": nmid}
            left = {"k": "proj", "dom": [int(v) for v in rng.permutation(nmid)],
                    "rng": [int(v) for v in rng.choice(nout, nmid, replace=False)],
                    "ds": nmid, "rs": nout}
            items.append([left, right])
        return {"k": "projprod", "items": items}
    if kind == "div":
        return {"k": "div", "doms": _drefs(rng, ("sd",)), "dim": int(rng.integers(1, 4))}
    cls = str(rng.choice(list(DISCR)))
    return {"k": "discr", "cls": cls, "kw": str(rng.choice(["flow", "transport", "mech"])),
            "term": str(rng.choice(DISCR[cls])), "doms": _drefs(rng, ("sd",))}


def _sparse_like(node):
    return node["k"] == "sparse" or (node["k"] == "neg" and _sparse_like(node["c"]))


def _const_like(node):
    # Scalar.__neg__ / DenseArray.__neg__ return a Scalar / DenseArray again (no composite
    # operator), so a (nested) minus of a constant is a constant for the rejection rule
    if node["k"] == "neg":
        return _const_like(node["c"])
    return node["k"] in ("scalar", "dense")


def valid(tree):
    """False for the documented rejection  SparseArray ** (Scalar | DenseArray)."""
    for _, n in paths(tree):
        if n["k"] == "op" and n["op"] == "pow" and _sparse_like(n["c"][0]) \
                and _const_like(n["c"][1]):
            return False
    return True


def gen_tree(rng, depth=None, allow_long=True):
    if depth is None:
        for _ in range(100):
            t = gen_tree(rng, int(rng.integers(1, 5)), allow_long)
            if valid(t):
                return t
        return gen_leaf(rng, allow_long)
    if depth <= 0 or rng.random() < 0.15:
        return gen_leaf(rng, allow_long)
    r = rng.random()
    if r < 0.55:
        return {"k": "op", "op": str(rng.choice(BIN_OPS)),
                "c": [gen_tree(rng, depth - 1, allow_long), gen_tree(rng, depth - 1, allow_long)]}
    if r < 0.68:
        op = str(rng.choice(BIN_OPS))
        if op == "matmul":
            left = gen_leaf(rng, False)
            while left["k"] != "sparse":
                left = gen_leaf(rng, False)
        else:
            left = {"k": "scalar", "v": float(rng.integers(1, 9)) / 2.0}
        return {"k": "rop", "op": op, "left": left, "c": gen_tree(rng, depth - 1, allow_long)}
    if r < 0.75:
        return {"k": "neg", "c": gen_tree(rng, depth - 1, allow_long)}
    if r < 0.80:
        doms = _drefs(rng)
        names = [str(x) for x in rng.choice(NAMES, size=int(rng.integers(1, 4)), replace=False)]
        deps = [{"k": "mdvar", "name": nm, "doms": [list(d) for d in doms]} for nm in names]
        return {"k": "surrogate", "name": str(rng.choice(SURROGATES)), "doms": doms, "c": deps}
    ar = rng.random()
    if ar < 0.5:
        return {"k": "func", "f": str(rng.choice(FUNCS1)), "c": [gen_tree(rng, depth - 1, allow_long)]}
    if ar < 0.75:
        return {"k": "func", "f": str(rng.choice(FUNCS2)),
                "c": [gen_tree(rng, depth - 1, allow_long), gen_tree(rng, depth - 1, allow_long)]}
    n = int(rng.integers(1, 4))
    args = [gen_tree(rng, depth - 1, allow_long) for _ in range(n)]
    if rng.random() < 0.4:      # a nested variadic call with >= 2 arguments
        inner = {"k": "func", "f": str(rng.choice(FUNCSN)),
                 "c": [gen_leaf(rng, False) for _ in range(int(rng.integers(2, 4)))]}
        args[int(rng.integers(0, n))] = inner
    return {"k": "func", "f": str(rng.choice(FUNCSN)), "c": args}


# --------------------------------------------------------------------------- mutations
def paths(node, prefix=()):
    """All (path, node) pairs, depth first.  A path is a tuple of keys / indices."""
    out = [(prefix, node)]
    k = node["k"]
    if k == "op":
        out += paths(node["c"][0], prefix + ("c", 0)) + paths(node["c"][1], prefix + ("c", 1))
    elif k == "rop":
        out += paths(node["left"], prefix + ("left",)) + paths(node["c"], prefix + ("c",))
    elif k == "neg":
        out += paths(node["c"], prefix + ("c",))
    elif k in ("func", "surrogate"):
        for i, c in enumerate(node["c"]):
            out += paths(c, prefix + ("c", i))
    return out


def _get(root, path):
    x = root
    for p in path:
        x = x[p]
    return x


def _replaced(root, path, new):
    root = copy.deepcopy(root)
    if not path:
        return new
    parent = _get(root, path[:-1])
    parent[path[-1]] = new
    return root


def _other(rng, options, cur):
    opts = [o for o in options if o != cur]
    return opts[int(rng.integers(0, len(opts)))]


def _mutate_idx(rng, spec, size, middle=False):
    """Change the index array without changing its length; keeps it duplicate-free."""
    a = real_idx(spec)
    n = a.size
    if n >= 2:
        if middle and n > 1000:
            i, j = (int(v) for v in rng.choice(np.arange(10, n - 10), size=2, replace=False))
        else:
            i, j = (int(v) for v in rng.choice(n, size=2, replace=False))
        new = [[i, int(a[j])], [j, int(a[i])]]
    else:
        free = [v for v in range(size) if v not in set(a.tolist())]
        if not free:
            return None
        new = [[0, int(free[int(rng.integers(0, len(free)))])]]
    if isinstance(spec, dict):
        s = copy.deepcopy(spec)
        s["set"] = list(s.get("set", [])) + new
        return s
    b = a.copy()
    for i, v in new:
        b[i] = v
    return [int(v) for v in b]


def _mut_proj(rng, p, which):
    p = copy.deepcopy(p)
    long = real_idx(p["dom"]).size > 1000
    if which == "domain_size":
        p["ds"] = int(p["ds"]) + int(rng.integers(1, 3))
    elif which == "range_size":
        p["rs"] = int(p["rs"]) + int(rng.integers(1, 3))
    elif which == "domain_index":
        new = _mutate_idx(rng, p["dom"], int(p["ds"]), middle=long)
        if new is None:
            return None
        p["dom"] = new
    elif which == "range_index":
        new = _mutate_idx(rng, p["rng"], int(p["rs"]), middle=long)
        if new is None:
            return None
        p["rng"] = new
    return p


def leaf_mutations(rng, leaf):
    """[(mutation kind, mutated leaf)] - one mutant per applicable kind."""
    k = leaf["k"]
    out = []
    L = lambda: copy.deepcopy(leaf)  # noqa: E731
    if k == "scalar":
        m = L()
        m["v"] = float(leaf["v"]) + float(rng.choice([1.0, -0.5, 1e-3])) \
            if abs(leaf["v"]) < 1e6 else float(leaf["v"]) * 2.0
        out.append(("scalar:value", m))
        m = L()                       # last-digit change
        m["v"] = float(np.nextafter(float(leaf["v"]), np.inf))
        out.append(("scalar:value-one-ulp", m))
    elif k == "dense":
        v = real_dense(leaf)
        m = L()
        n = v.size
        i = int(rng.integers(10, n - 10)) if n > 1000 else int(rng.integers(0, n))
        m["set"] = list(leaf.get("set", [])) + [[i, float(v[i]) + 0.25 * float(rng.choice([-3, 1, 2]))]]
        out.append(("dense-array:entry" + ("-long" if n > 1000 else ""), m))
        if n >= 2:
            j = int(_other(rng, range(n), i)) if n <= 1000 else i + 1
            if v[i] != v[j]:
                m = L()
                m["set"] = list(leaf.get("set", [])) + [[i, float(v[j])], [j, float(v[i])]]
                out.append(("dense-array:two-entries-swapped", m))
        m = L()
        m["n"] = n + 1
        out.append(("dense-array:length", m))
    elif k == "sparse":
        D = real_sparse_dense(leaf)
        nz = np.argwhere(D != 0)
        zs = np.argwhere(D == 0)
        i, j = (int(x) for x in nz[int(rng.integers(0, len(nz)))])
        m = L()
        m["set"] = list(leaf.get("set", [])) + [[i, j, float(D[i, j]) + 0.5]]
        out.append(("sparse-array:entry-value", m))
        if len(zs):
            i2, j2 = (int(x) for x in zs[int(rng.integers(0, len(zs)))])
            m = L()
            m["set"] = list(leaf.get("set", [])) + [[i, j, 0.0], [i2, j2, float(D[i, j])]]
            out.append(("sparse-array:entry-position", m))
        m = L()
        m["fmt"] = _other(rng, FORMATS, leaf["fmt"])
        out.append(("sparse-array:format", m))
        m = L()
        m["cls"] = "array" if leaf["cls"] == "matrix" else "matrix"
        out.append(("sparse-array:container-class", m))
        # shape: the dense realisation depends on (m, n) -> pad explicitly
        for ax in ("m", "n"):
            m = L()
            m[ax] = int(leaf[ax]) + 1
            Dn = real_sparse_dense(m)
            # overwrite the new realisation with the old data, zero padding
            sets = []
            for a in range(Dn.shape[0]):
                for b in range(Dn.shape[1]):
                    want = D[a, b] if (a < D.shape[0] and b < D.shape[1]) else 0.0
                    if Dn[a, b] != want:
                        sets.append([a, b, float(want)])
            m["set"] = sets
            out.append(("sparse-array:shape-zero-padded-" + ("rows" if ax == "m" else "cols"), m))
    elif k == "var":
        m = L()
        m["name"] = _other(rng, NAMES, leaf["name"])
        out.append(("variable:name", m))
        m = L()
        m["dom"] = [leaf["dom"][0], int(_other(rng, range(NPOOL), leaf["dom"][1]))]
        out.append(("variable:domain", m))
        m = L()
        m["dom"] = ["intf" if leaf["dom"][0] == "sd" else "sd", leaf["dom"][1]]
        out.append(("variable:domain-type-same-id", m))
    elif k in ("mdvar", "tdarray"):
        lab = "md-variable" if k == "mdvar" else "time-dependent-array"
        m = L()
        m["name"] = _other(rng, NAMES, leaf["name"])
        out.append((lab + ":name", m))
        used = [d[1] for d in leaf["doms"]]
        free = [i for i in range(NPOOL) if i not in used]
        t = leaf["doms"][0][0]
        if free:
            m = L()
            m["doms"][int(rng.integers(0, len(used)))][1] = int(free[int(rng.integers(0, len(free)))])
            out.append((lab + ":one-domain-replaced", m))
            m = L()
            m["doms"].append([t, int(free[0])])
            out.append((lab + ":domain-added", m))
        if len(used) >= 2:
            m = L()
            m["doms"] = m["doms"][1:] + m["doms"][:1]
            out.append((lab + ":domain-order", m))
            m = L()
            m["doms"] = m["doms"][:-1]
            out.append((lab + ":domain-dropped", m))
        types = ("sd", "intf") if k == "mdvar" else ("sd", "intf", "bg")
        m = L()
        t2 = _other(rng, types, t)
        m["doms"] = [[t2, d[1]] for d in leaf["doms"]]
        out.append((lab + ":domain-type-same-ids", m))
    elif k == "proj":
        long = real_idx(leaf["dom"]).size > 1000
        for which in ("domain_size", "range_size", "domain_index", "range_index"):
            m = _mut_proj(rng, leaf, which)
            if m is not None:
                lab = which.replace("_", "-")
                if long and which.endswith("index"):
                    lab += "-middle-of-long-array"
                out.append(("projection:" + lab, m))
    elif k == "projlist":
        i = int(rng.integers(0, len(leaf["items"])))
        for which in ("domain_index", "range_index", "domain_size"):
            pm = _mut_proj(rng, leaf["items"][i], which)
            if pm is None:
                continue
            m = L()
            if which == "domain_size":      # keep the list consistent: all children
                inc = int(pm["ds"]) - int(leaf["items"][i]["ds"])
                for q in m["items"]:
                    q["ds"] = int(q["ds"]) + inc
            else:
                m["items"][i] = pm
            out.append(("projection-list:child-" + which.replace("_", "-"), m))
        m = L()
        m["items"] = m["items"][1:]
        if len(m["items"]) >= 2:
            out.append(("projection-list:child-dropped", m))
    elif k == "projprod":
        i = int(rng.integers(0, len(leaf["items"])))
        for side, lab in ((0, "left-factor"), (1, "right-factor")):
            for which in ("domain_index", "range_index"):
                pm = _mut_proj(rng, leaf["items"][i][side], which)
                if pm is None:
                    continue
                m = L()
                m["items"][i][side] = pm
                out.append((f"projection-product:{lab}-{which.replace('_', '-')}", m))
    elif k == "div":
        m = L()
        m["dim"] = int(leaf["dim"]) + 1
        out.append(("divergence:dim", m))
        used = [d[1] for d in leaf["doms"]]
        free = [i for i in range(NPOOL) if i not in used]
        if free:
            m = L()
            m["doms"][0][1] = int(free[0])
            out.append(("divergence:one-domain-replaced", m))
    elif k == "discr":
        m = L()
        m["kw"] = _other(rng, ["flow", "transport", "mech"], leaf["kw"])
        out.append(("discretization:keyword", m))
        m = L()
        m["term"] = _other(rng, DISCR[leaf["cls"]], leaf["term"])
        out.append(("discretization:matrix-term", m))
        both = [c for c in DISCR if leaf["term"] in DISCR[c] and c != leaf["cls"]]
        if both:
            m = L()
            m["cls"] = both[0]
            out.append(("discretization:class", m))
        used = [d[1] for d in leaf["doms"]]
        free = [i for i in range(NPOOL) if i not in used]
        if free:
            m = L()
            m["doms"][0][1] = int(free[0])
            out.append(("discretization:one-domain-replaced", m))
    return out


def node_mutations(rng, node):
    """Mutations of an inner node: operation kind, operand order, function, regrouping."""
    k = node["k"]
    out = []
    N = lambda: copy.deepcopy(node)  # noqa: E731
    if k == "op":
        m = N()
        m["op"] = _other(rng, BIN_OPS, node["op"])
        out.append(("operation-kind", m))
        if canon(node["c"][0]) != canon(node["c"][1]):
            m = N()
            m["c"] = m["c"][::-1]
            out.append(("operand-order", m))
    elif k == "rop":
        if node["left"]["k"] == "scalar":
            m = N()
            m["op"] = _other(rng, [o for o in BIN_OPS if o != "matmul"], node["op"])
            out.append(("operation-kind-reflected", m))
        # reflected vs forward form with the same operands (children order differs or the
        # operation name differs)
        if node["op"] in ("sub", "div", "pow", "mul", "matmul"):
            m = {"k": "op", "op": node["op"], "c": [copy.deepcopy(node["c"]),
                                                    copy.deepcopy(node["left"])]}
            out.append(("reflected-vs-forward-operands", m))
    elif k == "func":
        group = FUNCS1 if node["f"] in FUNCS1 else FUNCS2 if node["f"] in FUNCS2 else FUNCSN
        m = N()
        m["f"] = _other(rng, group, node["f"])
        out.append(("function:name", m))
        if len(node["c"]) >= 2 and canon(node["c"][0]) != canon(node["c"][-1]):
            m = N()
            m["c"] = m["c"][::-1]
            out.append(("function:argument-order", m))
        # f(.., g(y1..yk), ..) -> f(.., g(y1..yk-1), yk, ..)  for variadic f and g
        if node["f"] in FUNCSN:
            for i, c in enumerate(node["c"]):
                if c["k"] == "func" and c["f"] in FUNCSN and len(c["c"]) >= 2:
                    m = N()
                    inner = m["c"][i]
                    moved = inner["c"].pop()
                    m["c"].insert(i + 1, moved)
                    out.append(("function:nested-call-regrouped", m))
                    break
    elif k == "surrogate":
        m = N()
        m["name"] = _other(rng, SURROGATES, node["name"])
        out.append(("surrogate-operator:name", m))
        if len(node["c"]) >= 2 and canon(node["c"][0]) != canon(node["c"][-1]):
            m = N()
            m["c"] = m["c"][::-1]
            out.append(("function:argument-order", m))
    return out


def mutants(rng, root, max_per_tree=40):
    """[(kind, path, mutated tree)] over all leaves and inner nodes of ``root``."""
    out = []
    for path, node in paths(root):
        if node["k"] in INNER:
            cand = node_mutations(rng, node)
        else:
            cand = leaf_mutations(rng, node)
        for kind, new in cand:
            mt = _replaced(root, path, new)
            if valid(mt):
                out.append((kind, list(path), mt))
    if len(out) > max_per_tree:
        idx = sorted(rng.choice(len(out), size=max_per_tree, replace=False).tolist())
        out = [out[i] for i in idx]
    return out
