"""Helpers shared by the mechanics checks C13 (MPSA), C15 (Biot), C16 (TPSA).

* random displacement gradients by class (general / symmetric / pure rotation / dilation /
  axis-aligned), exact isotropic stress,
* admissible Neumann face sets (2-D: any subset leaving >= 1 Dirichlet face; 3-D: no two
  Neumann faces share an edge, decided on ``face_nodes``),
* outward sign of boundary faces, boundary data of a linear field in the PorePy
  convention (Dirichlet: u at the face centre; Neumann: sigma n_f * outward sign, i.e. the
  traction integrated over the face, seen from outside).
"""
from __future__ import annotations

import numpy as np
import scipy.sparse as sps

G_CLASSES = ("general", "symmetric", "rotation", "dilation", "axis", "shear")


def random_gradient(rng, nd: int, klass: str | None = None):
    """3x3 displacement gradient (zero outside the leading nd x nd block)."""
    klass = klass or str(rng.choice(G_CLASSES, p=[0.4, 0.12, 0.18, 0.1, 0.1, 0.1]))
    G = np.zeros((3, 3))
    B = rng.normal(size=(nd, nd))
    if klass == "general":
        G[:nd, :nd] = B
    elif klass == "symmetric":
        G[:nd, :nd] = 0.5 * (B + B.T)
    elif klass == "rotation":          # infinitesimal rigid rotation: skew gradient
        G[:nd, :nd] = 0.5 * (B - B.T)
    elif klass == "dilation":
        G[:nd, :nd] = rng.normal() * np.eye(nd)
    elif klass == "axis":              # uniaxial strain along a coordinate axis
        k = int(rng.integers(0, nd))
        G[k, k] = rng.choice([-1.0, 1.0]) * rng.uniform(0.5, 2.0)
    elif klass == "shear":
        i, j = rng.choice(nd, size=2, replace=False)
        G[i, j] = rng.uniform(0.5, 2.0)
    else:
        raise ValueError(klass)
    G = np.round(G, 6)
    return klass, [[float(v) for v in row] for row in G]


def stress(G, mu: float, lam: float, nd: int) -> np.ndarray:
    """Isotropic Hooke: sigma = mu (G + G^T) + lam tr(G) I on the nd x nd block."""
    G = np.asarray(G, dtype=float)
    s = np.zeros((3, 3))
    g = G[:nd, :nd]
    s[:nd, :nd] = mu * (g + g.T) + lam * np.trace(g) * np.eye(nd)
    return s


def boundary_sign(g) -> np.ndarray:
    """+1 / -1 on boundary faces (outward orientation of the stored normal), 0 inside."""
    fi, _, sgn = sps.find(g.cell_faces)
    cnt = np.bincount(fi, minlength=g.num_faces)
    out = np.zeros(g.num_faces)
    out[fi] = sgn
    out[cnt != 1] = 0.0
    return out


def boundary_faces(g) -> np.ndarray:
    fi, _, _ = sps.find(g.cell_faces)
    cnt = np.bincount(fi, minlength=g.num_faces)
    return np.flatnonzero(cnt == 1)


def faces_share_edge(g, faces) -> bool:
    """Do two of the given faces of a 3-D grid share an edge (>= 2 common nodes)?"""
    fn = g.face_nodes.tocsc()
    sets = [set(fn.indices[fn.indptr[f]:fn.indptr[f + 1]].tolist()) for f in faces]
    for i in range(len(sets)):
        for j in range(i + 1, len(sets)):
            if len(sets[i] & sets[j]) >= 2:
                return True
    return False


def faces_share_node(g, faces) -> bool:
    fn = g.face_nodes.tocsc()
    seen: set = set()
    for f in faces:
        s = set(fn.indices[fn.indptr[f]:fn.indptr[f + 1]].tolist())
        if seen & s:
            return True
        seen |= s
    return False


def pick_neumann(g, rng, frac: float) -> list[int]:
    """Admissible Neumann face set of the statement: 2-D any subset, 3-D no two faces
    share an edge; always at least one Dirichlet boundary face left."""
    bf = boundary_faces(g)
    cand = bf[rng.random(bf.size) < frac]
    cand = rng.permutation(cand)
    if g.dim == 3:
        fn = g.face_nodes.tocsc()
        chosen: list[int] = []
        sets: list[set] = []
        for f in cand:
            s = set(fn.indices[fn.indptr[f]:fn.indptr[f + 1]].tolist())
            if all(len(s & t) < 2 for t in sets):
                chosen.append(int(f))
                sets.append(s)
        cand = np.array(chosen, dtype=int)
    if cand.size >= bf.size:
        cand = cand[1:]
    return sorted(int(f) for f in cand)


def admissible(g, neu_faces) -> bool:
    bf = set(boundary_faces(g).tolist())
    nf = [int(f) for f in neu_faces]
    if len(set(nf)) != len(nf) or not set(nf) <= bf or len(nf) >= len(bf):
        return False
    if g.dim == 3 and faces_share_edge(g, nf):
        return False
    return True


def linear_field(G, c):
    G = np.asarray(G, dtype=float)
    c = np.asarray(c, dtype=float).reshape(3, 1)
    return lambda x: G @ x + c


def mixed_face_node_counts(g) -> bool:
    n = np.diff(g.face_nodes.tocsc().indptr)
    return bool(n.min() != n.max())
