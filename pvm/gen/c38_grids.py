"""Grid / md-grid builders for C38 (export - import round trip).

Spec (JSON-able):
    {"type": "multi", "parts": [part, ...]}      independent subdomains, no interfaces
        part = {"kind": "recipe", "recipe": <pvm.gen.grids recipe>}
             | {"kind": "polygon", "n": [nx, ny], "seed": s, "layers": 0|k}
               general polygons: triangles, quadrilaterals, pentagons, hexagons (and their
               extrusion into prisms / hexahedra / general polyhedra when layers > 0)
    {"type": "mdg", "recipe": <pvm.gen.mdg recipe>}   fractured md-grid with interfaces
"""
from __future__ import annotations

import numpy as np

import porepy as pp

from . import grids as gg
from . import mdg as gm


def polygon_cells(n, seed):
    """Counter-clockwise node loops on an nx x ny lattice mixing 3-, 4-, 5-, 6-gons."""
    nx, ny = int(n[0]), int(n[1])
    rng = np.random.default_rng([38, int(seed)])
    idx = lambda i, j: j * (nx + 1) + i  # noqa: E731
    cells = []
    for j in range(ny):
        i = 0
        while i < nx:
            a, b, c, d = idx(i, j), idx(i + 1, j), idx(i + 1, j + 1), idx(i, j + 1)
            r = int(rng.integers(0, 5))
            if r >= 3 and i + 1 < nx:
                e, f = idx(i + 2, j), idx(i + 2, j + 1)
                if r == 3:      # hexagon: two squares merged
                    cells.append([a, b, e, f, c, d])
                else:           # pentagon + triangle: square + half of the next square
                    cells.append([a, b, e, c, d])
                    cells.append([e, f, c])
                i += 2
                continue
            if r == 0 or r >= 3:
                cells.append([a, b, c, d])
            elif r == 1:
                cells += [[a, b, c], [a, c, d]]
            else:
                cells += [[a, b, d], [b, c, d]]
            i += 1
    x, y = np.meshgrid(np.arange(nx + 1, dtype=float), np.arange(ny + 1, dtype=float))
    nodes = np.vstack((x.ravel(), y.ravel(), np.zeros(x.size)))
    return nodes, cells


def build_part(part):
    if part["kind"] == "recipe":
        return gg.build(part["recipe"])
    nodes, cells = polygon_cells(part["n"], part["seed"])
    g = gg.poly_grid_from_cells(nodes, cells)
    g.compute_geometry()
    layers = int(part.get("layers", 0))
    if layers:
        z = np.linspace(0.0, 1.0, layers + 1)
        g3, _, _ = pp.grid_extrusion.extrude_grid(g, z)
        g3.compute_geometry()
        return g3
    return g


def build(spec):
    if spec["type"] == "mdg":
        return gm.build(spec["recipe"])
    mdg = pp.MixedDimensionalGrid()
    grids = [build_part(p) for p in spec["parts"]]
    mdg.add_subdomains(grids)
    return mdg


def random_part(rng, dim=None):
    dim = dim or int(rng.choice([1, 2, 3], p=[0.15, 0.55, 0.3]))
    u = rng.random()
    if dim == 1:
        return {"kind": "recipe", "recipe": gg.random_recipe(rng, dims=(1,), rigid=True)}
    if dim == 2:
        if u < 0.5:
            return {"kind": "polygon", "n": [int(rng.integers(2, 6)), int(rng.integers(1, 5))],
                    "seed": int(rng.integers(0, 2**31)), "layers": 0}
        return {"kind": "recipe", "recipe": gg.random_recipe(rng, dims=(2,), rigid=True,
                                                              max_cells=40)}
    if u < 0.45:
        return {"kind": "polygon", "n": [int(rng.integers(2, 5)), int(rng.integers(1, 3))],
                "seed": int(rng.integers(0, 2**31)), "layers": int(rng.integers(1, 3))}
    return {"kind": "recipe", "recipe": gg.random_recipe(rng, dims=(3,), max_cells=40)}


def random_spec(rng):
    u = rng.random()
    if u < 0.4:
        meshes = ("cartesian", "simplex") if rng.random() < 0.5 else ("cartesian",)
        return {"type": "mdg", "recipe": gm.random_recipe(rng, meshes=meshes, p3d=0.2)}
    nparts = int(rng.choice([1, 2, 3], p=[0.3, 0.5, 0.2]))
    dim0 = int(rng.choice([2, 3], p=[0.65, 0.35]))
    parts = [random_part(rng, dim0)]
    for _ in range(nparts - 1):
        parts.append(random_part(rng, dim0 if rng.random() < 0.7 else None))
    return {"type": "multi", "parts": parts}
