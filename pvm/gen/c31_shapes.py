"""Integer-lattice shape generators for C31 (polygons, polyhedra, chains, triangulations).

Everything returned is JSON-able (lists of ints / floats).  Validity of each draw is decided
with the exact predicates of ``pvm.ref.c31_exact`` and invalid draws are re-drawn.
"""
from __future__ import annotations

import itertools
import math

import numpy as np

from pvm.ref import c31_exact as ex


# ------------------------------------------------------------------------------ helpers
def rand_int_matrix(rng, dim, lo=-2, hi=2, maxdet=6):
    """Random integer matrix with non-zero determinant of moderate size."""
    for _ in range(200):
        A = rng.integers(lo, hi + 1, size=(dim, dim))
        d = int(round(np.linalg.det(A)))
        if d != 0 and abs(d) <= maxdet:
            return [[int(v) for v in row] for row in A]
    return [[int(i == j) for j in range(dim)] for i in range(dim)]


def apply_affine(A, b, p):
    return tuple(sum(A[i][j] * p[j] for j in range(len(p))) + b[i] for i in range(len(A)))


def convex_hull(points):
    """Andrew's monotone chain, strict hull (collinear points dropped), ccw."""
    pts = sorted(set(points))
    if len(pts) < 3:
        return pts

    def half(seq):
        h = []
        for p in seq:
            while len(h) >= 2 and ex.cross2(ex.sub(h[-1], h[-2]), ex.sub(p, h[-2])) <= 0:
                h.pop()
            h.append(p)
        return h
    lower = half(pts)
    upper = half(reversed(pts))
    return lower[:-1] + upper[:-1]


# ----------------------------------------------------------------------------- polygons
RECTILINEAR = {
    "L": [(0, 0), (2, 0), (2, 1), (1, 1), (1, 2), (0, 2)],
    "U": [(0, 0), (3, 0), (3, 2), (2, 2), (2, 1), (1, 1), (1, 2), (0, 2)],
    "T": [(0, 2), (0, 1), (1, 1), (1, 0), (2, 0), (2, 1), (3, 1), (3, 2)],
    "plus": [(1, 0), (2, 0), (2, 1), (3, 1), (3, 2), (2, 2), (2, 3), (1, 3), (1, 2), (0, 2),
             (0, 1), (1, 1)],
    "comb": [(0, 0), (5, 0), (5, 3), (4, 3), (4, 1), (3, 1), (3, 3), (2, 3), (2, 1), (1, 1),
             (1, 3), (0, 3)],
    "arrow": [(0, 0), (4, 1), (0, 2), (1, 1)],
    "zig": [(0, 0), (2, 0), (2, 2), (4, 2), (4, 3), (1, 3), (1, 1), (0, 1)],
}


def random_polygon(rng, style=None):
    """Simple integer polygon, random orientation and start vertex."""
    style = style or str(rng.choice(["star", "convex", "recti", "recti_affine"]))
    for _ in range(200):
        if style == "star":
            k = int(rng.integers(4, 10))
            pts = {(int(a), int(b)) for a, b in rng.integers(-6, 7, size=(k, 2))}
            if len(pts) < 3:
                continue
            pts = list(pts)
            cx = sum(p[0] for p in pts) / len(pts) + 0.013
            cy = sum(p[1] for p in pts) / len(pts) + 0.007
            pts.sort(key=lambda p: math.atan2(p[1] - cy, p[0] - cx))
            poly = pts
        elif style == "convex":
            k = int(rng.integers(3, 12))
            poly = convex_hull([(int(a), int(b)) for a, b in rng.integers(-6, 7, size=(k, 2))])
        else:
            name = str(rng.choice(sorted(RECTILINEAR)))
            base = RECTILINEAR[name]
            if style == "recti":
                s = int(rng.integers(1, 3))
                A = [[s, 0], [0, int(rng.integers(1, 3))]]
            else:
                A = rand_int_matrix(rng, 2, -2, 2, 4)
            b = [int(v) for v in rng.integers(-3, 4, size=2)]
            poly = [apply_affine(A, b, p) for p in base]
        if len(poly) < 3 or not ex.polygon_is_simple(poly):
            continue
        if rng.random() < 0.5:
            poly = poly[::-1]
        r = int(rng.integers(0, len(poly)))
        poly = poly[r:] + poly[:r]
        return [list(p) for p in poly], style
    return [[0, 0], [1, 0], [0, 1]], "fallback"


def query_points_2d(rng, poly, n=10):
    """Multiples of 1/4 around the polygon, plus a few boundary points (to be excluded)."""
    xs = [p[0] for p in poly]
    ys = [p[1] for p in poly]
    q = []
    for _ in range(n):
        q.append([float(rng.integers(4 * min(xs) - 4, 4 * max(xs) + 5)) / 4,
                  float(rng.integers(4 * min(ys) - 4, 4 * max(ys) + 5)) / 4])
    i = int(rng.integers(0, len(poly)))
    a, b = poly[i], poly[(i + 1) % len(poly)]
    q.append([float(a[0]), float(a[1])])
    q.append([(a[0] + b[0]) / 2, (a[1] + b[1]) / 2])
    return q


# ---------------------------------------------------------------------------- polyhedra
def _cube_faces_of_cells(cells):
    """Boundary unit squares of a set of unit cubes, as lists of 4 lattice vertices."""
    cells = set(cells)
    faces = []
    for (i, j, k) in sorted(cells):
        for axis in range(3):
            for side in (0, 1):
                nb = [i, j, k]
                nb[axis] += 1 if side else -1
                if tuple(nb) in cells:
                    continue
                o = [i, j, k]
                o[axis] += side
                u = [0, 0, 0]
                v = [0, 0, 0]
                u[(axis + 1) % 3] = 1
                v[(axis + 2) % 3] = 1
                quad = [tuple(o),
                        tuple(o[m] + u[m] for m in range(3)),
                        tuple(o[m] + u[m] + v[m] for m in range(3)),
                        tuple(o[m] + v[m] for m in range(3))]
                faces.append(quad)
    return faces


def fan_triangles(faces):
    """Vertex list and fan triangulation of conforming convex faces."""
    index = {}
    verts = []
    tris = []
    for f in faces:
        ids = []
        for p in f:
            p = tuple(p)
            if p not in index:
                index[p] = len(verts)
                verts.append(p)
            ids.append(index[p])
        for m in range(1, len(ids) - 1):
            tris.append((ids[0], ids[m], ids[m + 1]))
    return verts, tris


def orient_consistently(tris):
    """Own BFS orientation of an edge-manifold triangle surface (reference side)."""
    tris = [tuple(t) for t in tris]
    edge_to_tri = {}
    for i, t in enumerate(tris):
        for k in range(3):
            edge_to_tri.setdefault(frozenset((t[k], t[(k + 1) % 3])), []).append(i)
    done = {0}
    stack = [0]
    while stack:
        i = stack.pop()
        t = tris[i]
        for k in range(3):
            a, b = t[k], t[(k + 1) % 3]
            for j in edge_to_tri[frozenset((a, b))]:
                if j in done:
                    continue
                s = tris[j]
                # neighbour must traverse the edge as (b, a)
                dirs = [(s[m], s[(m + 1) % 3]) for m in range(3)]
                if (a, b) in dirs:
                    tris[j] = (s[0], s[2], s[1])
                done.add(j)
                stack.append(j)
    return tris


def surface_ok(verts, tris):
    und = {}
    for t in tris:
        if len(set(t)) != 3:
            return False
        for k in range(3):
            e = frozenset((t[k], t[(k + 1) % 3]))
            und[e] = und.get(e, 0) + 1
    if any(c != 2 for c in und.values()):
        return False
    if not ex.surface_edge_connected(tris):
        return False
    o = orient_consistently(tris)
    return ex.surface_is_closed_oriented(o) and ex.signed_volume6(verts, o) != 0


def random_polycube(rng, max_cells=7):
    nx, ny, nz = (int(v) for v in rng.integers(1, 4, size=3))
    allc = list(itertools.product(range(nx), range(ny), range(nz)))
    start = allc[int(rng.integers(0, len(allc)))]
    cells = {start}
    target = int(rng.integers(1, min(max_cells, len(allc)) + 1))
    tries = 0
    while len(cells) < target and tries < 100:
        tries += 1
        c = sorted(cells)[int(rng.integers(0, len(cells)))]
        ax = int(rng.integers(0, 3))
        d = 1 if rng.random() < 0.5 else -1
        nb = list(c)
        nb[ax] += d
        if tuple(nb) in allc:
            cells.add(tuple(nb))
    return sorted(cells)


NAMED_POLYCUBES = {
    "cube": [(0, 0, 0)],
    "L": [(0, 0, 0), (1, 0, 0), (0, 1, 0)],
    "U": [(0, 0, 0), (1, 0, 0), (2, 0, 0), (0, 1, 0), (2, 1, 0)],
    "T3": [(0, 0, 0), (1, 0, 0), (2, 0, 0), (1, 1, 0), (1, 0, 1)],
    "ring": [(0, 0, 0), (1, 0, 0), (2, 0, 0), (0, 1, 0), (2, 1, 0), (0, 2, 0), (1, 2, 0),
             (2, 2, 0)],
    "stairs": [(0, 0, 0), (1, 0, 0), (1, 0, 1), (2, 0, 1), (2, 0, 2)],
}


def polyhedron_from_cells(cells, A, b):
    faces0 = _cube_faces_of_cells(cells)
    faces = [[list(apply_affine(A, b, p)) for p in f] for f in faces0]
    return faces


def octahedron(rng, dent=False):
    a, b, c = (int(v) for v in rng.integers(1, 4, size=3))
    top = c
    if dent:
        top = -int(rng.integers(0, c))          # -c < top <= 0 : non-convex (or flat) cap
        if top == 0:
            top = -1 if c > 1 else 0
    eq = [(a, 0, 0), (0, b, 0), (-a, 0, 0), (0, -b, 0)]
    faces = []
    for m in range(4):
        p, q = eq[m], eq[(m + 1) % 4]
        faces.append([p, q, (0, 0, top)])
        faces.append([q, p, (0, 0, -c)])
    return faces


def prism(rng):
    for _ in range(100):
        k = int(rng.integers(3, 9))
        base = convex_hull([(int(x), int(y)) for x, y in rng.integers(-3, 4, size=(k, 2))])
        if len(base) < 3 or ex.polygon_area2(base) == 0:
            continue
        e = (int(rng.integers(-1, 2)), int(rng.integers(-1, 2)), int(rng.integers(1, 4)))
        bot = [(p[0], p[1], 0) for p in base]
        top = [(p[0] + e[0], p[1] + e[1], e[2]) for p in base]
        faces = [bot[::-1], top]
        n = len(base)
        for m in range(n):
            faces.append([bot[m], bot[(m + 1) % n], top[(m + 1) % n], top[m]])
        return faces
    return None


def tetrahedron(rng):
    for _ in range(100):
        v = [tuple(int(x) for x in rng.integers(-3, 4, size=3)) for _ in range(4)]
        vol = ex.dot(ex.sub(v[1], v[0]), ex.cross3(ex.sub(v[2], v[0]), ex.sub(v[3], v[0])))
        if vol != 0:
            return [[v[0], v[1], v[2]], [v[0], v[1], v[3]], [v[0], v[2], v[3]],
                    [v[1], v[2], v[3]]]
    return None


def random_polyhedron(rng, style=None):
    """Returns (faces, style, cells-or-None, A, b).  Faces: conforming convex polygons with
    integer vertices."""
    style = style or str(rng.choice(
        ["box", "polycube", "named", "octa", "dent", "prism", "tet"],
        p=[0.1, 0.3, 0.2, 0.08, 0.12, 0.1, 0.1]))
    for _ in range(100):
        cells = None
        A = [[1, 0, 0], [0, 1, 0], [0, 0, 1]]
        b = [0, 0, 0]
        if style in ("box", "polycube", "named"):
            if style == "box":
                cells = [(0, 0, 0)]
                A = [[int(rng.integers(1, 4)), 0, 0], [0, int(rng.integers(1, 4)), 0],
                     [0, 0, int(rng.integers(1, 4))]]
            else:
                cells = (random_polycube(rng) if style == "polycube"
                         else list(NAMED_POLYCUBES[str(rng.choice(sorted(NAMED_POLYCUBES)))]))
                if rng.random() < 0.5:
                    A = rand_int_matrix(rng, 3, -2, 2, 4)
                else:
                    A = [[int(rng.integers(1, 3)), 0, 0], [0, int(rng.integers(1, 3)), 0],
                         [0, 0, int(rng.integers(1, 3))]]
            b = [int(v) for v in rng.integers(-2, 3, size=3)]
            faces = polyhedron_from_cells(cells, A, b)
        else:
            faces = {"octa": lambda: octahedron(rng), "dent": lambda: octahedron(rng, True),
                     "prism": lambda: prism(rng), "tet": lambda: tetrahedron(rng)}[style]()
            if faces is None:
                continue
            if rng.random() < 0.5:
                A = rand_int_matrix(rng, 3, -1, 2, 3)
                b = [int(v) for v in rng.integers(-2, 3, size=3)]
                faces = [[apply_affine(A, b, p) for p in f] for f in faces]
        faces = [[list(int(x) for x in p) for p in f] for f in faces]
        verts, tris = fan_triangles(faces)
        if surface_ok(verts, tris):
            return faces, style, cells, A, b
    return None


def query_points_3d(rng, faces, cells, A, b, n=8):
    """Multiples of 1/4; for polycubes drawn in the un-mapped grid and mapped with A, b
    (so on-plane interior points are frequent), else in the bounding box."""
    out = []
    if cells is not None:
        hi = [max(c[m] for c in cells) + 1 for m in range(3)]
        for _ in range(n):
            q0 = [float(rng.integers(-2, 4 * hi[m] + 3)) / 4 for m in range(3)]
            u = rng.random()
            if u < 0.4:
                q0 = [round(2 * v) / 2 for v in q0]
            elif u < 0.6:
                # on a lattice line (two integer coordinates): collinear with cube edges
                k = int(rng.integers(0, 3))
                q0 = [v if m == k else float(round(v)) for m, v in enumerate(q0)]
            out.append([float(v) for v in apply_affine(A, b, q0)])
    else:
        allp = [p for f in faces for p in f]
        lo = [min(p[m] for p in allp) for m in range(3)]
        hi = [max(p[m] for p in allp) for m in range(3)]
        cen = [sum(p[m] for p in allp) / len(allp) for m in range(3)]
        for _ in range(n):
            if rng.random() < 0.5:
                q = [float(rng.integers(4 * lo[m] - 2, 4 * hi[m] + 3)) / 4 for m in range(3)]
            else:   # near the centre: mostly inside
                q = [round(4 * (cen[m] + rng.uniform(-0.8, 0.8))) / 4 for m in range(3)]
            out.append(q)
    return out


# --------------------------------------------------------------------------- orderings
def random_chain(rng, closed, n=None, tags=0, label_hi=30):
    n = n or int(rng.integers(3, 13))
    labels = [int(v) for v in rng.choice(label_hi + 1, size=n, replace=False)]
    m = n if closed else n - 1
    edges = [[labels[i], labels[(i + 1) % n]] for i in range(m)]
    order = rng.permutation(m)
    cols = []
    for i in order:
        e = edges[int(i)]
        if rng.random() < 0.5:
            e = e[::-1]
        cols.append(e + [int(v) for v in rng.integers(0, label_hi + 1, size=tags)])
    return [[c[r] for c in cols] for r in range(2 + tags)]


def planar_triangulation(rng):
    from scipy.spatial import Delaunay
    k = int(rng.integers(4, 14))
    pts = rng.uniform(0, 1, size=(k, 2))
    return [[int(v) for v in s] for s in Delaunay(pts).simplices]


def scramble_triangles(rng, tris, relabel=True):
    tris = [list(t) for t in tris]
    nv = max(max(t) for t in tris) + 1
    perm = rng.permutation(nv) if relabel else np.arange(nv)
    out = []
    for i in rng.permutation(len(tris)):
        t = [int(perm[v]) for v in tris[int(i)]]
        p = rng.permutation(3)
        out.append([t[int(p[0])], t[int(p[1])], t[int(p[2])]])
    return out
