"""Model builder shared by C03 and C04: shipped physics models on generated geometries.

A *config* (JSON-able) is

    {"model": "spf"|"meb"|"mom"|"poro"|"thm",
     "geom":  {"kind": "lib2d", "fracs": [0,1,2], "cartesian": bool}     library geometry
                  RectangularDomainThreeFractures ([0,2]x[0,1], up to 3 fractures)
              {"kind": "lib3d", "fracs": [0,1,2], "cartesian": bool, "h": 0.5}
                  OrthogonalFractures3d (unit cube, up to 3 orthogonal fractures)
              {"kind": "recipe", "recipe": <pvm.gen.mdg recipe>}          generated md-grid
     "consts": null (library defaults, "all ones") | {"solid": {...}, "fluid": {...},
               "numerical": {...}, "reference": {...}}
     "dt": float,
     "closed": bool}      Neumann-zero (closed) external boundaries for flow and energy

The physics classes are the unmodified shipped ones (pp.SinglePhaseFlow, ...); only the
geometry mixin and (for ``closed``) the boundary-condition *type* methods are supplied
by the harness, through the documented override points.
"""
from __future__ import annotations

import copy

import numpy as np

import porepy as pp
from porepy.applications.md_grids.model_geometries import (
    OrthogonalFractures3d,
    RectangularDomainThreeFractures,
)

MODELS = {
    "spf": pp.SinglePhaseFlow,
    "meb": pp.MassAndEnergyBalance,
    "mom": pp.MomentumBalance,
    "poro": pp.Poromechanics,
    "thm": pp.Thermoporomechanics,
}
HAS_FLOW = {"spf", "meb", "poro", "thm"}
HAS_ENERGY = {"meb", "thm"}
HAS_MECH = {"mom", "poro", "thm"}


class RecipeGeometry(pp.PorePyModel):
    """Geometry mixin driven by a ``pvm.gen.mdg`` recipe stored in params."""

    def set_domain(self) -> None:
        r = self.params["pvm_recipe"]
        L = [float(v) for v in r["domain"]]
        box = {"xmin": 0.0, "xmax": L[0], "ymin": 0.0, "ymax": L[1]}
        if r["dim"] == 3:
            box.update({"zmin": 0.0, "zmax": L[2]})
        self._domain = pp.Domain(box)

    def set_fractures(self) -> None:
        r = self.params["pvm_recipe"]
        if r["dim"] == 2:
            self._fractures = [pp.LineFracture(np.array(f, dtype=float).T)
                               for f in r["fractures"]]
        else:
            self._fractures = [pp.PlaneFracture(np.array(f, dtype=float).T)
                               for f in r["fractures"]]

    def grid_type(self):
        return self.params["pvm_recipe"]["mesh"]

    def meshing_arguments(self) -> dict:
        r = self.params["pvm_recipe"]
        L = [float(v) for v in r["domain"]]
        if r["mesh"] == "cartesian":
            n = r["n"]
            args = {"cell_size_x": L[0] / n[0], "cell_size_y": L[1] / n[1]}
            if r["dim"] == 3:
                args["cell_size_z"] = L[2] / n[2]
            return args
        h = float(r["h"])
        return {"cell_size": h, "cell_size_fracture": h, "cell_size_boundary": h,
                "cell_size_min": h / 4}


class Lib3dGeometry(OrthogonalFractures3d):
    def meshing_arguments(self) -> dict:
        h = float(self.params.get("pvm_h", 0.5))
        return {"cell_size": h, "cell_size_fracture": h, "cell_size_boundary": h,
                "cell_size_min": 0.4 * h}


class ClosedFlowBoundaries(pp.PorePyModel):
    """Neumann (zero) conditions on every external boundary face of every subdomain."""

    def _pvm_neu(self, sd):
        return pp.BoundaryCondition(sd, self.domain_boundary_sides(sd).all_bf, "neu")

    def bc_type_darcy_flux(self, sd):
        return self._pvm_neu(sd)

    def bc_type_fluid_flux(self, sd):
        return self._pvm_neu(sd)


class ClosedEnergyBoundaries(pp.PorePyModel):
    def bc_type_fourier_flux(self, sd):
        return pp.BoundaryCondition(sd, self.domain_boundary_sides(sd).all_bf, "neu")

    def bc_type_enthalpy_flux(self, sd):
        return pp.BoundaryCondition(sd, self.domain_boundary_sides(sd).all_bf, "neu")


_CLASS_CACHE: dict = {}


def model_class(name: str, geom_kind: str, closed: bool):
    key = (name, geom_kind, closed)
    if key in _CLASS_CACHE:
        return _CLASS_CACHE[key]
    from porepy.applications.md_grids.model_geometries import \
        NonMatchingSquareDomainOrthogonalFractures
    geo = {"lib2d": RectangularDomainThreeFractures, "lib3d": Lib3dGeometry,
           "recipe": RecipeGeometry,
           "nonmatching2d": NonMatchingSquareDomainOrthogonalFractures}[geom_kind]
    bases = [geo]
    if closed:
        if name in HAS_FLOW:
            bases.append(ClosedFlowBoundaries)
        if name in HAS_ENERGY:
            bases.append(ClosedEnergyBoundaries)
    bases.append(MODELS[name])
    cls = type(f"Pvm_{name}_{geom_kind}_{int(closed)}", tuple(bases), {})
    _CLASS_CACHE[key] = cls
    return cls


def build(cfg: dict):
    """Instantiate and prepare the model of a config."""
    g = cfg["geom"]
    params: dict = {"times_to_export": []}
    if g["kind"] == "lib2d":
        params["fracture_indices"] = list(g["fracs"])
        params["cartesian"] = bool(g["cartesian"])
    elif g["kind"] == "nonmatching2d":
        # library geometry with refined fracture and mortar grids (non-matching interfaces)
        params["fracture_indices"] = list(g["fracs"])
        params["grid_type"] = "cartesian"
        params["meshing_arguments"] = {"cell_size": float(g.get("h", 0.25))}
        params["fracture_refinement_ratio"] = int(g.get("frac_ratio", 2))
        params["interface_refinement_ratio"] = int(g.get("intf_ratio", 3))
    elif g["kind"] == "lib3d":
        params["fracture_indices"] = list(g["fracs"])
        params["grid_type"] = "cartesian" if g["cartesian"] else "simplex"
        params["pvm_h"] = float(g.get("h", 0.5))
    else:
        params["pvm_recipe"] = copy.deepcopy(g["recipe"])
    c = cfg.get("consts")
    if c:
        mc = {}
        if c.get("solid"):
            mc["solid"] = pp.SolidConstants(**c["solid"])
        if c.get("fluid"):
            mc["fluid"] = pp.FluidComponent(**c["fluid"])
        if c.get("numerical"):
            mc["numerical"] = pp.NumericalConstants(**c["numerical"])
        params["material_constants"] = mc
        if c.get("reference"):
            params["reference_variable_values"] = pp.ReferenceVariableValues(
                **c["reference"])
    dt = float(cfg.get("dt", 1.0))
    params["time_manager"] = pp.TimeManager(schedule=[0.0, 10.0 * dt], dt_init=dt,
                                            constant_dt=True)
    cls = model_class(cfg["model"], g["kind"], bool(cfg.get("closed", False)))
    m = cls(params)
    m.prepare_simulation()
    return m


# ------------------------------------------------------------------ random constants
def _lu(rng, lo, hi):
    return float(np.exp(rng.uniform(np.log(lo), np.log(hi))))


def random_constants(rng, model: str) -> dict:
    """Non-trivial, well-conditioned (O(1)) material constants: compressible fluid,
    thermal expansion, Biot coefficient != 1, dilation / friction, residual aperture."""
    solid = {
        "porosity": float(rng.uniform(0.05, 0.4)),
        "permeability": _lu(rng, 0.3, 3.0),
        "normal_permeability": _lu(rng, 0.3, 3.0),
        "residual_aperture": _lu(rng, 0.02, 0.3),
        "density": _lu(rng, 0.5, 3.0),
        "specific_storage": _lu(rng, 0.2, 2.0),
    }
    fluid = {
        "compressibility": _lu(rng, 0.05, 0.8),
        "density": _lu(rng, 0.5, 2.0),
        "viscosity": _lu(rng, 0.3, 3.0),
    }
    numerical = {}
    reference = {"pressure": float(rng.uniform(-0.5, 0.5))}
    if model in HAS_ENERGY:
        solid.update({"specific_heat_capacity": _lu(rng, 0.3, 3.0),
                      "thermal_conductivity": _lu(rng, 0.3, 3.0),
                      "thermal_expansion": _lu(rng, 0.01, 0.3)})
        fluid.update({"specific_heat_capacity": _lu(rng, 0.3, 3.0),
                      "thermal_conductivity": _lu(rng, 0.3, 3.0),
                      "normal_thermal_conductivity": _lu(rng, 0.3, 3.0),
                      "thermal_expansion": _lu(rng, 0.01, 0.3)})
        reference["temperature"] = float(rng.uniform(-0.5, 0.5))
    if model in HAS_MECH:
        solid.update({"biot_coefficient": float(rng.uniform(0.3, 0.95)),
                      "lame_lambda": _lu(rng, 0.5, 3.0),
                      "shear_modulus": _lu(rng, 0.5, 3.0),
                      "dilation_angle": float(rng.uniform(0.05, 0.4)),
                      "friction_coefficient": _lu(rng, 0.3, 1.5),
                      "fracture_gap": _lu(rng, 0.01, 0.2),
                      "fracture_normal_stiffness": _lu(rng, 0.5, 3.0)})
        numerical.update({"characteristic_displacement": _lu(rng, 0.5, 2.0),
                          "characteristic_contact_traction": _lu(rng, 0.5, 2.0)})
    if model == "mom":
        fluid = {}
        reference = {}
        for k in ("permeability", "normal_permeability", "specific_storage"):
            solid.pop(k)
    out = {"solid": solid}
    if fluid:
        out["fluid"] = fluid
    if numerical:
        out["numerical"] = numerical
    if reference:
        out["reference"] = reference
    return out


# ------------------------------------------------------------------------- states
def variable_blocks(model):
    """[(variable name, dof indices)] over all variables of the model."""
    es = model.equation_system
    out = []
    for v in es.variables:
        out.append((v.name, es.dofs_of([v])))
    return out


def random_state(model, rng, amp: float, base: np.ndarray | None = None,
                 boost: dict | None = None) -> np.ndarray:
    """base (default: current iterate) + amp * (1 + |base|) * N(0,1) on every dof, with
    an independent O(1) factor per variable kind (times ``boost[variable name]``)."""
    es = model.equation_system
    x0 = es.get_variable_values(iterate_index=0) if base is None else base
    x = x0.copy()
    fac: dict[str, float] = {}
    for name, dofs in variable_blocks(model):
        if name not in fac:
            fac[name] = float(np.exp(rng.uniform(np.log(0.5), np.log(2.0))))
            if boost and name in boost:
                fac[name] *= float(boost[name])
        x[dofs] += amp * fac[name] * (1.0 + np.abs(x0[dofs])) * \
            rng.standard_normal(dofs.size)
    return x
