"""Worker process: runs the case indices  offset, offset+stride, ...  of one check."""
from __future__ import annotations

import argparse
import json
import os
import signal
import sys
import time
import traceback
import warnings
from pathlib import Path

import numpy as np

from .monitor import Monitor, to_jsonable, shorten
from .reach import Reach


class CaseTimeout(Exception):
    pass


def _alarm(signum, frame):
    raise CaseTimeout()


def case_for(mod, prop_no: int, seed: int, tier: str, i: int, floor: list):
    if i < len(floor):
        return floor[i]
    j = i - len(floor)
    rng = np.random.default_rng(np.random.SeedSequence([seed, prop_no, j]))
    return mod.generate(rng, tier, j)


def _porepy_frame(tb) -> str | None:
    """Innermost traceback frame: is it inside the code under test?"""
    frames = traceback.extract_tb(tb)
    if not frames:
        return None
    last = frames[-1]
    fn = last.filename
    if "/pvm/" in fn or fn.startswith(str(Path(__file__).parent)):
        return None
    for fr in reversed(frames):
        if "/porepy/" in fr.filename and "/pvm/" not in fr.filename:
            return f"{Path(fr.filename).name}:{fr.name}"
    return None


def run_one(mod, case, mon: Monitor, timeout: float = 120.0) -> None:
    """Run check(case); classify escapes."""
    old = signal.signal(signal.SIGALRM, _alarm)
    signal.setitimer(signal.ITIMER_REAL, timeout)
    try:
        with warnings.catch_warnings():
            warnings.simplefilter("ignore")
            mod.check(case, mon)
    except CaseTimeout:
        mon.inconclusive(f"case timeout after {timeout}s")
    except AssertionError as e:
        # assertion inside harness code = harness bug; inside porepy = porepy refused
        where = _porepy_frame(e.__traceback__)
        tb = traceback.format_exc()[-1500:]
        if where:
            mon.violation(f"unexpected-exception:AssertionError@{where}", tb)
        else:
            mon.inconclusive("harness assertion: " + tb)
    except Exception as e:  # noqa: BLE001
        where = _porepy_frame(e.__traceback__)
        tb = traceback.format_exc()[-1500:]
        if where:
            mon.violation(f"unexpected-exception:{type(e).__name__}@{where}", tb)
        else:
            mon.inconclusive(f"harness exception {type(e).__name__}: " + tb)
    finally:
        signal.setitimer(signal.ITIMER_REAL, 0)
        signal.signal(signal.SIGALRM, old)


def main(argv=None) -> int:
    ap = argparse.ArgumentParser()
    ap.add_argument("prop")
    ap.add_argument("--tier", required=True)
    ap.add_argument("--seed", type=int, required=True)
    ap.add_argument("--n", type=int, required=True)
    ap.add_argument("--stride", type=int, required=True)
    ap.add_argument("--offset", type=int, required=True)
    ap.add_argument("--out", required=True)
    ap.add_argument("--deadline", type=float, default=None)
    a = ap.parse_args(argv)

    import importlib
    prop = a.prop.upper()
    mod = importlib.import_module(f"pvm.checks.{prop.lower()}")
    prop_no = int(prop[1:])
    floor = list(mod.floor(a.tier)) if hasattr(mod, "floor") else []
    total = len(floor) + a.n
    mon = Monitor(prop)
    # private scratch cwd: porepy writes gmsh_frac_file.msh etc. into the cwd, and
    # concurrent workers would race on it
    import shutil
    import tempfile
    home = os.getcwd()
    scratch = str(Path(a.out).resolve().parent / f"cwd{a.offset}")
    os.makedirs(scratch, exist_ok=True)
    os.chdir(scratch)
    reach = Reach(getattr(mod, "REACH", ()), getattr(mod, "REACH_LINES", ()))
    if hasattr(mod, "warmup"):
        mod.warmup()
    reach.start()
    samples = []
    viol_cases = []
    per_case_timeout = getattr(mod, "CASE_TIMEOUT", 120.0) * float(
        os.environ.get("PVM_TIMEOUT_SCALE", "1"))
    # the runner's absolute deadline (minus a margin to dump results) bounds the work;
    # cases not started by then are counted as not run, never silently dropped
    t_end = a.deadline if a.deadline is not None else time.time() + getattr(
        mod, "TIMEOUT", {}).get(a.tier, 600 if a.tier == "quick" else 3600) * 0.9
    not_run = 0
    for i in range(a.offset, total, a.stride):
        if time.time() > t_end:
            not_run += 1
            continue
        try:
            case = case_for(mod, prop_no, a.seed, a.tier, i, floor)
        except Exception:  # generator failure = harness bug
            mon.begin_case(i, {"generator_failed": i})
            mon.inconclusive("generator exception: " + traceback.format_exc()[-1200:])
            mon.end_case()
            continue
        mon.begin_case(i, case)
        run_one(mod, case, mon, per_case_timeout)
        r = mon.end_case()
        if r["violations"]:
            if len(viol_cases) < 50:
                viol_cases.append({"index": i, "hash": r["hash"],
                                   "case": to_jsonable(case),
                                   "violations": r["violations"]})
        if len(samples) < 3 and (r["nontrivial"] or i < len(floor)):
            samples.append({"index": i, "case": shorten(case, 1200),
                            "classes": r["classes"]})
    reach.stop()
    out = mon.dump()
    out["reach"] = reach.dump()
    out["samples"] = samples
    out["violation_cases"] = viol_cases
    out["not_run"] = not_run
    try:
        import porepy
        out["porepy_path"] = str(Path(porepy.__file__).parent)
    except Exception:
        out["porepy_path"] = "?"
    Path(a.out).write_text(json.dumps(to_jsonable(out)))
    os.chdir(home)
    shutil.rmtree(scratch, ignore_errors=True)
    return 0


if __name__ == "__main__":
    sys.exit(main())
